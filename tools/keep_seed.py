#!/usr/bin/env python3
"""Development tool: files a confirmed seeded defect under /verif/seeded/<name>/.
usage: keep_seed.py <name> <property> <worktree> <demo-dest> <needs> <detected_by> [--patch <rebased patch>]"""
import sys, os, shutil, json, re
name, prop, wt, dest, needs, detected = sys.argv[1:7]
V = os.path.dirname(os.path.dirname(os.path.abspath(__file__)))
d = os.path.join(V, "seeded", name); os.makedirs(d, exist_ok=True)
shutil.copy(os.path.join(wt, "seed", "patch.diff"), os.path.join(d, "patch.diff"))
if "--patch" in sys.argv:
    shutil.copy(sys.argv[sys.argv.index("--patch") + 1], os.path.join(d, "patch.rebased-on-final-tree.diff"))
shutil.copy(os.path.join(wt, "seed", "demo.rs"), os.path.join(d, "demo.rs"))
shutil.copy(os.path.join(wt, "seed", "README.md"), os.path.join(d, "author_notes.md"))
conf = open(os.path.join(wt, "seed", "confirm.log")).read()
m = re.search(r"RESULT demo_clean_exit=(\d+) demo_patched_exit=(\d+) suite_exit=(\d+) suite_failed_tests=(\d+)", conf)
meta = {
    "property": prop,
    "origin": "written by a fresh sub-agent that saw only the property text and a scratch worktree of /repo",
    "needs_to_manifest": needs,
    "demonstration": {"file": "demo.rs", "place_at": dest, "run": f"cargo test --offline -p {'zerokit_utils' if dest.startswith('utils') else 'rln'} --test seed_demo"},
    "confirmed_by_me": {"how": "tools/confirm_seed.sh in the scratch worktree: demo on the clean tree, demo with the patch, full workspace suite with the patch (cargo test --workspace --offline --no-fail-fast -- --test-threads 4)",
                        "demo_on_clean_tree_exit": int(m.group(1)), "demo_with_patch_exit": int(m.group(2)), "suite_with_patch_exit": int(m.group(3)), "suite_failed_tests": int(m.group(4))} if m else {"how": "not confirmed"},
    "checked_with": f"tools/try_seed.sh <patch> {prop}  (git -C /repo apply; ./check {prop} quick; git -C /repo checkout -- .)",
    "detected_by": detected,
}
json.dump(meta, open(os.path.join(d, "meta.json"), "w"), indent=1)
print("kept", d)
