#!/bin/bash
# Development tool: independent confirmation of a seeded defect in its scratch worktree.
# usage: confirm_seed.sh <worktree> <demo-destination relative to worktree> <cargo -p package>
# steps: clean tree -> demo passes; apply patch -> demo fails; full suite passes with the patch; revert.
WT="$1"; DEST="$2"; PKG="$3"
export CARGO_NET_OFFLINE=true CARGO_TARGET_DIR="$WT/target"
cd "$WT" || exit 2
LOG="$WT/seed/confirm.log"; : > "$LOG"
git checkout -- . 2>/dev/null
cp seed/demo.rs "$DEST"
T=$(basename "$DEST" .rs)
EXTRA=""
if grep -q zerokit_verif seed/demo.rs seed/README.md 2>/dev/null; then export RUSTFLAGS="--cfg zerokit_verif"; fi
cargo test --offline -p "$PKG" --test "$T" >> "$LOG" 2>&1; A=$?
git apply seed/patch.diff || { echo "patch does not apply" >> "$LOG"; exit 2; }
cargo test --offline -p "$PKG" --test "$T" >> "$LOG" 2>&1; B=$?
rm -f "$DEST"
unset RUSTFLAGS
cargo test --workspace --offline --no-fail-fast -- --test-threads 4 > "$WT/seed/confirm_suite.log" 2>&1; C=$?
FAILED=$(grep -E "^test .* FAILED" "$WT/seed/confirm_suite.log" | grep -v test_groth16_proofs_performance_ffi | wc -l)
git checkout -- . ; git status --short | grep -v "^??" >> "$LOG"
echo "RESULT demo_clean_exit=$A demo_patched_exit=$B suite_exit=$C suite_failed_tests=$FAILED" | tee -a "$LOG"
