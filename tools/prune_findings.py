#!/usr/bin/env python3
"""Development tool: drops `finding` entries of known_findings.json whose stored instance no longer
exhibits the entry's class key on the CURRENT /repo tree (run it on the unchanged tree only)."""
import json, subprocess, os, tempfile
V=os.path.dirname(os.path.dirname(os.path.abspath(__file__)))
kf=json.load(open(os.path.join(V,'known_findings.json')))
keep=[]; dropped=[]
env=dict(os.environ, ZKV_SCRATCH='/dev/shm', TMPDIR='/dev/shm', RAYON_NUM_THREADS='1', ZKV_BIN_DIR=os.path.join(V,'target','bin'))
for e in kf['entries']:
    if e['status']!='finding':
        keep.append(e); continue
    with tempfile.NamedTemporaryFile('w',suffix='.json',dir='/dev/shm',delete=False) as f:
        json.dump({'case':e['instance']},f); name=f.name
    out=subprocess.run([os.path.join(V,'target','release','zkv'),e['property'],'--verif',V,'--replay',name],capture_output=True,text=True,env=env).stdout
    os.unlink(name)
    if ('['+e['key']+']') in out or ('key='+e['key']+' ') in out:
        keep.append(e)
    else:
        dropped.append(e['key'])
kf['entries']=keep
json.dump(kf,open(os.path.join(V,'known_findings.json'),'w'),indent=1)
print('kept',sum(1 for e in keep if e['status']=='finding'),'dropped',len(dropped)); print('\n'.join(dropped))
