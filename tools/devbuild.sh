#!/bin/bash
# Development tool: build the engine the way ./check does and show only errors.
cd /verif/engine && RUSTFLAGS="--cfg zerokit_verif" CARGO_TARGET_DIR=/verif/target CARGO_NET_OFFLINE=true cargo build --release --offline 2>&1 | grep -E '^error' -A12 | head -${1:-60}
