#!/bin/bash
# Development tool (not registered): the detection self-test. Applies every kept seeded defect (seeded/*/)
# to the isolated copy of the repository and runs the check that owns its symptom (meta.json: run_check, default the quick check of the property it was written for); every line must say
# exit=1. usage: run_all_seeds.sh [name-prefix]
cd /verif
for d in seeded/${1:-}*/; do
  n=$(basename "$d")
  prop=$(python3 -c "import json;m=json.load(open('$d/meta.json'));print(m.get('run_check',m['property']).split(':')[0])")
  tier=$(python3 -c "import json;m=json.load(open('$d/meta.json'));r=m.get('run_check','');print(r.split(':')[1] if ':' in r else 'quick')")
  p="$d/patch.diff"
  if ! git -C /repo apply --check "$PWD/$p" 2>/dev/null; then
    if [ -f "$d/patch.rebased-on-final-tree.diff" ]; then p="$d/patch.rebased-on-final-tree.diff"; else echo "$n: patch does not apply on the final tree"; continue; fi
  fi
  echo -n "$n: "
  TIER=$tier ZKV_PLAN=$([ "$tier" = thorough ] && echo depth16 || echo "") tools/try_seed_iso.sh "$PWD/$p" "$prop" 2>&1 | grep -v ^WARN | grep "exit=" | cut -c1-160
done
