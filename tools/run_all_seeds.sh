#!/bin/bash
# Development tool (not registered): the detection self-test. Applies every kept seeded defect (seeded/*/)
# to the isolated copy of the repository and runs the quick check of the property it breaks; every line must say
# exit=1. usage: run_all_seeds.sh [name-prefix]
cd /verif
for d in seeded/${1:-}*/; do
  n=$(basename "$d")
  prop=$(python3 -c "import json;print(json.load(open('$d/meta.json'))['property'])")
  p="$d/patch.diff"
  if ! git -C /repo apply --check "$PWD/$p" 2>/dev/null; then
    if [ -f "$d/patch.rebased-on-final-tree.diff" ]; then p="$d/patch.rebased-on-final-tree.diff"; else echo "$n: patch does not apply on the final tree"; continue; fi
  fi
  echo -n "$n: "
  tools/try_seed_iso.sh "$PWD/$p" "$prop" 2>&1 | grep -v ^WARN | grep "exit=" | cut -c1-160
done
