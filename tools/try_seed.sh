#!/bin/bash
# Development tool: apply a seeded defect to /repo, run the given checks (quick unless TIER=thorough), restore /repo.
# usage: try_seed.sh <patch.diff> <ID> [<ID>...]
set -u
P="$1"; shift
cd /verif
# replay files written while a seeded defect is applied must never be mistaken for findings of the real tree
rm -rf /dev/shm/replays.saved; [ -d replays ] && mv replays /dev/shm/replays.saved
trap 'rm -rf /verif/replays; [ -d /dev/shm/replays.saved ] && mv /dev/shm/replays.saved /verif/replays' EXIT
if ! git -C /repo apply --check "$P" 2>/dev/null; then echo "patch does not apply"; exit 2; fi
git -C /repo apply "$P"
for id in "$@"; do
  out=$(./check "$id" "${TIER:-quick}" 2>&1); rc=$?
  echo "$id: exit=$rc violations=$(echo "$out" | grep -c '^VIOLATION') $(echo "$out" | grep -m2 'key=' | cut -c1-220 | tr '\n' ' ')"
done
git -C /repo checkout -- .
git -C /repo status --short | head -3
