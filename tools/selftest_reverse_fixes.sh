#!/bin/bash
# Development tool (not registered): the inverse of every "fix:" commit in /repo is a realistic defect
# that the repository's tests do not see. Applies each to /repo, runs the quick check of the property
# the fix belongs to, expects VIOLATION (exit 1), and restores /repo. usage: selftest_reverse_fixes.sh [commit prop]...
set -u
cd /verif
# replay files written while a seeded defect is applied must never be mistaken for findings of the real tree
rm -rf /dev/shm/replays.saved; [ -d replays ] && mv replays /dev/shm/replays.saved
trap 'rm -rf /verif/replays; [ -d /dev/shm/replays.saved ] && mv /dev/shm/replays.saved /verif/replays' EXIT
run_one() {
  local c="$1" prop="$2"
  git -C /repo diff "$c^" "$c" -R > /dev/shm/rev.patch
  if ! git -C /repo apply --check /dev/shm/rev.patch 2>/dev/null; then echo "$c $prop: reverse patch does not apply on HEAD (later fix touches the same lines) - skipped"; return; fi
  git -C /repo apply /dev/shm/rev.patch
  local out rc
  out=$(./check "$prop" quick 2>&1); rc=$?
  git -C /repo checkout -- .
  local nv
  nv=$(echo "$out" | grep -c '^VIOLATION')
  echo "$c $prop: exit=$rc violations=$nv  $(echo "$out" | grep -m1 'key=' | cut -c1-150)"
}
if [ $# -ge 2 ]; then while [ $# -ge 2 ]; do run_one "$1" "$2"; shift 2; done; exit 0; fi
