#!/bin/bash
# Development tool: like try_seed.sh but on an isolated copy (/var/tmp/zv2: a worktree of /repo and a
# copy of /verif whose engine points at it), so that long runs on /repo are not disturbed.
# usage: try_seed_iso.sh <patch.diff> <ID> [<ID>...]     (TIER=thorough for the thorough tier)
set -u
Z=/var/tmp/zv2
P="$1"; shift
# first use: create the isolated worktree and the harness copy (its Cargo.toml files point at the worktree);
# remove both when done: git -C /repo worktree remove --force $Z/repo; rm -rf $Z
# NEVER run two of these at the same time: they share the worktree.
if [ ! -d $Z/repo ]; then
  mkdir -p $Z && git -C /repo worktree add --detach $Z/repo HEAD >/dev/null 2>&1 || exit 2
fi
rsync -a --exclude target --exclude .git --exclude replays --exclude 'engine/*/Cargo.toml' /verif/ $Z/verif/
for f in /verif/engine/Cargo.toml /verif/engine/*/Cargo.toml; do
  t="$Z/verif/${f#/verif/}"
  if [ ! -f "$t" ]; then sed "s#/repo/#$Z/repo/#g" "$f" > "$t"; fi
done
git -C $Z/repo checkout -q --detach "$(git -C /repo rev-parse HEAD)" 2>/dev/null
git -C $Z/repo checkout -- . 
cd $Z/verif
export ZKV_REPO=$Z/repo
if [ "$P" != "none" ]; then
  if ! git -C $Z/repo apply --check "$P" 2>/dev/null; then echo "patch does not apply"; exit 2; fi
  git -C $Z/repo apply "$P"
fi
for id in "$@"; do
  out=$(./check "$id" "${TIER:-quick}" 2>&1); rc=$?
  echo "$id: exit=$rc violations=$(echo "$out" | grep -c '^VIOLATION') $(echo "$out" | grep -m2 'key=' | cut -c1-220 | tr '\n' ' ')"
done
git -C $Z/repo checkout -- .
rm -rf $Z/verif/replays
