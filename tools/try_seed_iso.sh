#!/bin/bash
# Development tool: like try_seed.sh but on an isolated copy (/var/tmp/zv2: a worktree of /repo and a
# copy of /verif whose engine points at it), so that long runs on /repo are not disturbed.
# usage: try_seed_iso.sh <patch.diff> <ID> [<ID>...]     (TIER=thorough for the thorough tier)
set -u
Z=/var/tmp/zv2
P="$1"; shift
rsync -a --exclude target --exclude .git --exclude replays --exclude 'engine/*/Cargo.toml' /verif/ $Z/verif/
git -C $Z/repo checkout -q --detach "$(git -C /repo rev-parse HEAD)" 2>/dev/null
git -C $Z/repo checkout -- . 
cd $Z/verif
export ZKV_REPO=$Z/repo
if [ "$P" != "none" ]; then
  if ! git -C $Z/repo apply --check "$P" 2>/dev/null; then echo "patch does not apply"; exit 2; fi
  git -C $Z/repo apply "$P"
fi
for id in "$@"; do
  out=$(./check "$id" "${TIER:-quick}" 2>&1); rc=$?
  echo "$id: exit=$rc violations=$(echo "$out" | grep -c '^VIOLATION') $(echo "$out" | grep -m2 'key=' | cut -c1-220 | tr '\n' ' ')"
done
git -C $Z/repo checkout -- .
rm -rf $Z/verif/replays
