#!/usr/bin/env python3
"""Development tool (never run by a check): turns replay files of violations that were triaged as
GENUINE defects which cannot be repaired (see DESIGN.md §6) into `finding` entries of
known_findings.json. usage: adopt_findings.py <PROP> <replay-dir> [<replay-dir> ...] --why "<text>" """
import json, sys, glob, os
prop = sys.argv[1]
dirs = [a for a in sys.argv[2:] if not a.startswith("--")]
why = sys.argv[sys.argv.index("--why") + 1] if "--why" in sys.argv else ""
kf_path = os.path.join(os.path.dirname(os.path.dirname(os.path.abspath(__file__))), "known_findings.json")
kf = json.load(open(kf_path))
have = {e.get("key") for e in kf["entries"] if e["status"] == "finding"}
added = 0
for d in dirs:
    for f in sorted(glob.glob(os.path.join(d, "*.json"))):
        j = json.load(open(f))
        if j.get("property") != prop or j["key"] in have:
            continue
        kf["entries"].append({"status": "finding", "property": prop, "key": j["key"],
                              "what": (why + " " if why else "") + j["detail"][:300], "instance": j["case"]})
        have.add(j["key"]); added += 1
json.dump(kf, open(kf_path, "w"), indent=1)
print("added", added, "entries for", prop)
