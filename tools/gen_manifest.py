#!/usr/bin/env python3
"""Regenerates /verif/MANIFEST.json from the table below (kept in one place so the manifest is
always valid and in step with what ./check implements)."""
import json, os, sys
V = os.path.dirname(os.path.dirname(os.path.abspath(__file__)))

BASELINE = ("cd /repo && (test -f /w/lib/nextest.toml && cargo nextest run --workspace --no-fail-fast "
            "--tool-config-file pb:/w/lib/nextest.toml --profile pb --test-threads 8 --offline "
            "|| cargo test --workspace --no-fail-fast --offline)")

# id -> (engine, category, technique, level text, level note, design ref)
CHECKS = json.load(open(os.path.join(V, "tools", "checks.json")))
NA = json.load(open(os.path.join(V, "tools", "not_applicable.json")))
HOOK_COMMITS = json.load(open(os.path.join(V, "tools", "hook_commits.json")))

checks = []
for c in CHECKS:
    pid = c["id"]
    checks.append({
        "property_id": pid,
        "quick_cmd": f"./check {pid} quick",
        "thorough_cmd": f"./check {pid} thorough",
        "evidence_file": f"/verif/evidence/{pid}.json",
        "replay_cmd_template": f"./check {pid} --replay {{path}}",
        "engine": c["engine"],
        "level_claimed": {"category": c["category"], "text": c["text"], "design_ref": c["design_ref"]},
        "level_note": c["note"],
        "technique": c["technique"],
    })
m = {
    "version": 1,
    "setup_cmd": "./check --setup",
    "hooks": {
        "guard": "cfg(zerokit_verif)",
        "enable": "RUSTFLAGS=\"--cfg zerokit_verif\" (set by ./check for every build of the harness, which path-depends on /repo/rln and /repo/utils)",
        "baseline_off_cmd": BASELINE,
        "source_commits": HOOK_COMMITS,
        "add_only": True,
    },
    "engines": [
        {"name": "zkv", "path": "engine/zkv", "serves_properties": [c["id"] for c in CHECKS],
         "kind_free_text": "Rust harness linking the real rln / zerokit_utils crates: explicit-state BFS over operation histories against an ideal-tree reference, deviation-bounded exhaustive input grids against independent reference models, fault-position enumeration, call-granularity interleaving enumeration"},
    ],
    "checks": checks,
    "not_applicable": NA,
    "notes": "All checks are bounded exhaustive explorations of the real code (model-checking family); see DESIGN.md. Exit 0 held / 1 VIOLATION / >=2 machinery failure.",
}
json.dump(m, open(os.path.join(V, "MANIFEST.json"), "w"), indent=1)
print("MANIFEST.json written:", len(checks), "checks,", len(NA), "not applicable")
