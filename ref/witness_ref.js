// Reference witness generator: drives the repository's own rln.wasm (the circuit compiled by
// circom) through the repository's witness_calculator.js. Line protocol on stdin/stdout:
//   request : {"inputs": {identitySecret, userMessageLimit, messageId, pathElements[20], identityPathIndex[20], x, externalNullifier}}   (decimal strings)
//   response: {"ok":true,"n":5844,"hex":"<n x 32 bytes little-endian, hex>"} | {"ok":false,"error":"..."}
const fs = require("fs");
const readline = require("readline");
const repo = process.env.ZKV_REPO || "/repo";
const wc = require(repo + "/rln-wasm/resources/witness_calculator.js");

function le32hex(v) {
  let h = BigInt(v).toString(16).padStart(64, "0");
  let out = "";
  for (let i = 62; i >= 0; i -= 2) out += h.substr(i, 2);
  return out;
}

(async () => {
  const code = fs.readFileSync(repo + "/rln/resources/tree_height_20/rln.wasm");
  // the calculator logs circuit messages on stdout; keep the protocol channel clean
  const realWrite = process.stdout.write.bind(process.stdout);
  console.log = (...a) => process.stderr.write(a.join(" ") + "\n");
  let calc = await wc(code);
  // created only now: lines arriving while the module was being instantiated must not be lost
  const rl = readline.createInterface({ input: process.stdin, terminal: false });
  realWrite(JSON.stringify({ ready: true }) + "\n");
  for await (const line of rl) {
    if (!line.trim()) continue;
    let resp;
    try {
      const req = JSON.parse(line);
      const w = await calc.calculateWitness(req.inputs, true);
      let hex = "";
      for (const v of w) hex += le32hex(v);
      resp = { ok: true, n: w.length, hex };
    } catch (e) {
      resp = { ok: false, error: String(e).slice(0, 200) };
      // a failed assertion can leave the instance in an undefined state: start a fresh one
      try { calc = await wc(code); } catch (e2) { resp.error += " (re-instantiation failed)"; }
    }
    realWrite(JSON.stringify(resp) + "\n");
  }
})();
