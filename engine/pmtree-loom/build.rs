//! Copies the *real* sources of vacp2p_pmtree 2.0.2 from the cargo registry into OUT_DIR as one
//! file rooted at the crate root (tree.rs says `use crate::*`), with exactly two substitutions in
//! tree.rs: std::sync::{Arc, RwLock} -> loom::sync::{Arc, RwLock} and rayon:: -> crate::rayon_shim::.
//! A substitution that does not match the expected number of times fails the build (the dependency
//! has drifted: machinery failure, not a verdict).
use std::fs;
use std::path::PathBuf;

fn find_src() -> PathBuf {
    let home = std::env::var("CARGO_HOME").map(PathBuf::from).unwrap_or_else(|_| PathBuf::from(std::env::var("HOME").unwrap()).join(".cargo"));
    let reg = home.join("registry").join("src");
    for e in fs::read_dir(&reg).expect("cargo registry") {
        let p = e.unwrap().path().join("vacp2p_pmtree-2.0.2").join("src");
        if p.join("tree.rs").exists() {
            return p;
        }
    }
    panic!("vacp2p_pmtree-2.0.2 not found under {}", reg.display());
}

fn strip_inner_docs(s: &str) -> String {
    s.lines().filter(|l| !l.trim_start().starts_with("//!")).collect::<Vec<_>>().join("\n")
}

fn main() {
    let src = find_src();
    let read = |f: &str| fs::read_to_string(src.join(f)).unwrap();
    let mut tree = read("tree.rs");
    let n1 = tree.matches("use std::sync::{Arc, RwLock};").count();
    assert_eq!(n1, 1, "expected exactly one `use std::sync::{{Arc, RwLock}};` in tree.rs");
    tree = tree.replace("use std::sync::{Arc, RwLock};", "use loom::sync::{Arc, RwLock};");
    let n2 = tree.matches("rayon::").count();
    assert_eq!(n2, 3, "expected exactly three uses of `rayon::` in tree.rs, found {n2}");
    tree = tree.replace("rayon::", "crate::rayon_shim::");
    let mut lib = strip_inner_docs(&read("lib.rs"));
    for (m, body) in [("database", strip_inner_docs(&read("database.rs"))), ("hasher", strip_inner_docs(&read("hasher.rs"))), ("tree", strip_inner_docs(&tree))] {
        let decl = format!("pub mod {m};");
        assert_eq!(lib.matches(&decl).count(), 1, "lib.rs: `{decl}`");
        lib = lib.replace(&decl, &format!("pub mod {m} {{\n{body}\n}}"));
    }
    let out = PathBuf::from(std::env::var("OUT_DIR").unwrap()).join("pmtree_root.rs");
    fs::write(&out, lib).unwrap();
    println!("cargo:rerun-if-changed=build.rs");
    println!("cargo:rerun-if-changed={}", src.join("tree.rs").display());
}
