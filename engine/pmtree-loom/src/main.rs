//! Exhaustive schedule exploration (loom) of pmtree's parallel batch recomputation — the real
//! tree.rs, import-substituted by build.rs.
//!   pmtree-loom <depth> <start> <len> [prefill]     (LOOM_MAX_PREEMPTIONS bounds the search)
//! Prints {"schedules": n, ...}; a schedule on which the root or a leaf differs from the
//! sequential reference, or a deadlock, makes loom panic (exit code 101).
#![allow(dead_code, unused_imports, clippy::all)]
include!(concat!(env!("OUT_DIR"), "/pmtree_root.rs"));

pub mod rayon_shim {
    //! rayon's three entry points used by tree.rs, on loom threads
    pub fn current_num_threads() -> usize {
        2
    }
    pub struct ThreadPoolBuilder;
    pub struct ThreadPool;
    impl ThreadPoolBuilder {
        pub fn new() -> Self {
            ThreadPoolBuilder
        }
        pub fn num_threads(self, _n: usize) -> Self {
            self
        }
        pub fn build(self) -> Result<ThreadPool, String> {
            Ok(ThreadPool)
        }
    }
    impl ThreadPool {
        pub fn install<R>(&self, f: impl FnOnce() -> R) -> R {
            f()
        }
    }
    /// `a` runs on the calling thread, `b` on a fresh loom thread that is joined before returning
    /// (the closure's borrows therefore outlive the thread; the lifetime is erased for spawn)
    pub fn join<A, B, RA, RB>(a: A, b: B) -> (RA, RB)
    where
        A: FnOnce() -> RA + Send,
        B: FnOnce() -> RB + Send,
        RA: Send,
        RB: Send,
    {
        let mut slot: Option<RB> = None;
        let slot_ptr = &mut slot as *mut Option<RB> as usize;
        let boxed: Box<dyn FnOnce() + Send + '_> = Box::new(move || {
            let r = b();
            unsafe { *(slot_ptr as *mut Option<RB>) = Some(r) };
        });
        let boxed: Box<dyn FnOnce() + Send + 'static> = unsafe { std::mem::transmute(boxed) };
        let h = loom::thread::spawn(boxed);
        let ra = a();
        h.join().expect("joined thread panicked");
        (ra, slot.take().expect("second closure ran"))
    }
}

use std::collections::HashMap;

/// in-memory database
pub struct MemDb(HashMap<DBKey, Value>);
#[derive(Default, Clone)]
pub struct MemCfg;
impl Database for MemDb {
    type Config = MemCfg;
    fn new(_c: MemCfg) -> PmtreeResult<Self> {
        Ok(MemDb(HashMap::new()))
    }
    fn load(_c: MemCfg) -> PmtreeResult<Self> {
        Err(PmtreeErrorKind::DatabaseError(DatabaseErrorKind::CannotLoadDatabase))
    }
    fn get(&self, key: DBKey) -> PmtreeResult<Option<Value>> {
        Ok(self.0.get(&key).cloned())
    }
    fn put(&mut self, key: DBKey, value: Value) -> PmtreeResult<()> {
        self.0.insert(key, value);
        Ok(())
    }
    fn put_batch(&mut self, subtree: HashMap<DBKey, Value>) -> PmtreeResult<()> {
        self.0.extend(subtree);
        Ok(())
    }
    fn close(&mut self) -> PmtreeResult<()> {
        Ok(())
    }
}

/// an order-sensitive toy hash over u64 (the schedule, not the hash, is the subject)
#[derive(Clone, Copy, PartialEq, Eq)]
pub struct H;
impl Hasher for H {
    type Fr = u64;
    fn default_leaf() -> u64 {
        0
    }
    fn serialize(v: u64) -> Value {
        v.to_le_bytes().to_vec()
    }
    fn deserialize(v: Value) -> u64 {
        u64::from_le_bytes(v.try_into().unwrap())
    }
    fn hash(i: &[u64]) -> u64 {
        (i[0].wrapping_mul(0x9E3779B97F4A7C15) ^ i[1].wrapping_mul(0xC2B2AE3D27D4EB4F)).rotate_left(17).wrapping_add(1)
    }
}

fn reference_root(depth: usize, leaves: &[u64]) -> u64 {
    let mut level: Vec<u64> = leaves.to_vec();
    for _ in 0..depth {
        level = level.chunks(2).map(|c| H::hash(&[c[0], c[1]])).collect();
    }
    level[0]
}

fn main() {
    let a: Vec<usize> = std::env::args().skip(1).map(|s| s.parse().expect("number")).collect();
    let (depth, start, len) = (a[0], a[1], a[2]);
    let prefill = a.get(3).cloned().unwrap_or(0);
    let cap = 1usize << depth;
    static RUNS: std::sync::atomic::AtomicUsize = std::sync::atomic::AtomicUsize::new(0);
    let mut b = loom::model::Builder::new();
    if let Ok(p) = std::env::var("LOOM_MAX_PREEMPTIONS") {
        b.preemption_bound = p.parse().ok();
    }
    b.check(move || {
        RUNS.fetch_add(1, std::sync::atomic::Ordering::Relaxed);
        let mut t = tree::MerkleTree::<MemDb, H>::new(depth, MemCfg).unwrap();
        let mut want = vec![0u64; cap];
        for i in 0..prefill.min(cap) {
            t.set(i, 1000 + i as u64).unwrap();
            want[i] = 1000 + i as u64;
        }
        let leaves: Vec<u64> = (0..len).map(|k| 7 + k as u64).collect();
        let r = t.set_range(start, leaves.clone());
        if start + len <= cap {
            r.unwrap();
            for (k, v) in leaves.iter().enumerate() {
                want[start + k] = *v;
            }
        } else {
            assert!(r.is_err());
        }
        assert_eq!(t.root(), reference_root(depth, &want), "root differs from the sequential reference on this schedule");
        for i in 0..cap {
            assert_eq!(t.get(i).unwrap(), want[i], "leaf differs on this schedule");
        }
        assert_eq!(t.leaves_set(), if start + len <= cap && len > 0 { prefill.min(cap).max(start + len) } else { prefill.min(cap) });
    });
    println!("{{\"schedules\": {}, \"depth\": {}, \"start\": {}, \"len\": {}, \"prefill\": {}}}", RUNS.load(std::sync::atomic::Ordering::Relaxed), depth, start, len, prefill);
}
