//! Reference Poseidon over the BN254 scalar field: Grain-LFSR parameter generation as in the
//! Poseidon authors' `generate_parameters_grain.sage` (the script circomlib's constants come
//! from), x^5 S-box, (t, RF, RP) from circomlib's table. BigUint arithmetic only.
use super::field::*;
use num_bigint::BigUint;
use num_traits::Zero;
use std::collections::HashMap;
use std::sync::{Mutex, OnceLock};

/// circomlib N_ROUNDS_P for t = 2..=9
pub const RP: [usize; 8] = [56, 57, 56, 60, 60, 63, 64, 63];
pub const RF: usize = 8;

struct Grain {
    bits: Vec<u8>, // sliding 80-bit window, bits[0] is the oldest
}
impl Grain {
    fn new(t: usize, rf: usize, rp: usize) -> Self {
        let mut bits: Vec<u8> = Vec::with_capacity(80);
        let push = |v: u64, n: usize, bits: &mut Vec<u8>| {
            for i in (0..n).rev() {
                bits.push(((v >> i) & 1) as u8);
            }
        };
        push(1, 2, &mut bits); // prime field
        push(0, 4, &mut bits); // s-box x^alpha
        push(254, 12, &mut bits); // field size in bits
        push(t as u64, 12, &mut bits);
        push(rf as u64, 10, &mut bits);
        push(rp as u64, 10, &mut bits);
        for _ in 0..30 {
            bits.push(1);
        }
        assert_eq!(bits.len(), 80);
        let mut g = Grain { bits };
        for _ in 0..160 {
            g.step();
        }
        g
    }
    fn step(&mut self) -> u8 {
        let b = &self.bits;
        let nb = b[62] ^ b[51] ^ b[38] ^ b[23] ^ b[13] ^ b[0];
        self.bits.remove(0);
        self.bits.push(nb);
        nb
    }
    fn next_bit(&mut self) -> u8 {
        let mut nb = self.step();
        while nb == 0 {
            self.step();
            nb = self.step();
        }
        self.step()
    }
    fn random_bits(&mut self, n: usize) -> BigUint {
        let mut v = BigUint::zero();
        for _ in 0..n {
            v = (v << 1u32) + BigUint::from(self.next_bit());
        }
        v
    }
}

pub struct Params {
    pub t: usize,
    pub rf: usize,
    pub rp: usize,
    pub c: Vec<BigUint>,
    pub m: Vec<Vec<BigUint>>,
}

pub fn generate(t: usize) -> Params {
    assert!((2..=9).contains(&t));
    let rf = RF;
    let rp = RP[t - 2];
    let mut g = Grain::new(t, rf, rp);
    let p = p();
    let mut c = Vec::with_capacity((rf + rp) * t);
    for _ in 0..(rf + rp) * t {
        loop {
            let v = g.random_bits(254);
            if &v < p {
                c.push(v);
                break;
            }
        }
    }
    // first Cauchy matrix 1/(x_i + y_j); the script draws 2t elements reduced mod p
    let rand_list: Vec<BigUint> = (0..2 * t).map(|_| g.random_bits(254) % p).collect();
    let xs = &rand_list[..t];
    let ys = &rand_list[t..];
    let mut m = vec![vec![BigUint::zero(); t]; t];
    for i in 0..t {
        for j in 0..t {
            m[i][j] = finv(&fadd(&xs[i], &ys[j])).expect("x_i + y_j = 0 in reference MDS");
        }
    }
    Params { t, rf, rp, c, m }
}

pub fn params(t: usize) -> &'static Params {
    static ALL: OnceLock<Vec<Params>> = OnceLock::new();
    &ALL.get_or_init(|| (2..=9).map(generate).collect())[t - 2]
}

fn pow5(x: &BigUint) -> BigUint {
    let x2 = fmul(x, x);
    let x4 = fmul(&x2, &x2);
    fmul(&x4, x)
}

pub fn hash_uncached(inputs: &[BigUint]) -> BigUint {
    let n = inputs.len();
    assert!((1..=8).contains(&n));
    let prm = params(n + 1);
    let t = prm.t;
    let mut st: Vec<BigUint> = std::iter::once(BigUint::zero())
        .chain(inputs.iter().map(|x| x % p()))
        .collect();
    for r in 0..prm.rf + prm.rp {
        for i in 0..t {
            st[i] = fadd(&st[i], &prm.c[r * t + i]);
        }
        if r < prm.rf / 2 || r >= prm.rf / 2 + prm.rp {
            for i in 0..t {
                st[i] = pow5(&st[i]);
            }
        } else {
            st[0] = pow5(&st[0]);
        }
        let mut nst = vec![BigUint::zero(); t];
        for i in 0..t {
            let mut acc = BigUint::zero();
            for j in 0..t {
                acc += &prm.m[i][j] * &st[j];
            }
            nst[i] = acc % p();
        }
        st = nst;
    }
    st[0].clone()
}

/// Memoised front end (the tree explorers hash the same few pairs millions of times).
pub fn hash(inputs: &[BigUint]) -> BigUint {
    static MEMO: OnceLock<Mutex<HashMap<Vec<BigUint>, BigUint>>> = OnceLock::new();
    let memo = MEMO.get_or_init(|| Mutex::new(HashMap::new()));
    if let Some(v) = memo.lock().unwrap().get(inputs) {
        return v.clone();
    }
    let h = hash_uncached(inputs);
    let mut g = memo.lock().unwrap();
    if g.len() > 2_000_000 {
        g.clear();
    }
    g.insert(inputs.to_vec(), h.clone());
    h
}

pub fn hash2(a: &BigUint, b: &BigUint) -> BigUint {
    hash(&[a.clone(), b.clone()])
}

/// Published circomlib / circomlibjs vectors; the reference must reproduce them before anything
/// is judged with it.
pub fn selftest() -> Result<(), String> {
    let v = |xs: &[u64]| xs.iter().map(|x| big(*x)).collect::<Vec<_>>();
    let cases: Vec<(Vec<BigUint>, &str)> = vec![
        (v(&[1]), "18586133768512220936620570745912940619677854269274689475585506675881198879027"),
        (v(&[1, 2]), "7853200120776062878684798364095072458815029376092732009249414926327459813530"),
        (v(&[1, 2, 3, 4]), "18821383157269793795438455681495246036402687001665670618754263018637548127333"),
        (v(&[1, 2, 3, 4, 5, 6]), "20400040500897583745843009878988256314335038853985262692600694741116813247201"),
        (v(&[1, 2, 0, 0, 0]), "1018317224307729531995786483840663576608797660851238720571059489595066344487"),
        (v(&[3, 4, 5, 10, 23]), "13034429309846638789535561449942021891039729847501137143363028890275222221409"),
        (v(&[3, 4, 0, 0, 0]), "5811595552068139067952687508729883632420015185677766880877743348592482390548"),
    ];
    for (inp, want) in cases {
        let got = hash_uncached(&inp);
        if got != dec(want) {
            return Err(format!("reference Poseidon does not reproduce the circomlib vector for {} inputs: got {}", inp.len(), got));
        }
    }
    Ok(())
}
