//! The ideal hash tree: a plain array of 2^d leaves hashed pairwise level by level from the
//! default leaf (0), with a "written" flag per position and a leaf-count high-water mark.
//! A sparse variant (map of non-default leaves, default subtree hashes cached) serves depth 20.
use super::field::*;
use super::poseidon::hash2;
use num_bigint::BigUint;
use num_traits::Zero;
use std::collections::BTreeMap;

#[derive(Clone, Debug, PartialEq, Eq, Hash, PartialOrd, Ord)]
pub struct IdealTree {
    pub depth: usize,
    /// non-default leaves only
    pub leaves: BTreeMap<u64, BigUint>,
    /// positions whose last operation was a write (kept for all positions, also >= hwm)
    pub written: BTreeMap<u64, bool>,
    pub hwm: u64,
}

pub fn default_hashes(depth: usize) -> Vec<BigUint> {
    // index l = hash of an empty subtree whose root is at level l (level depth = leaf)
    let mut v = vec![BigUint::zero(); depth + 1];
    for l in (0..depth).rev() {
        v[l] = hash2(&v[l + 1], &v[l + 1]);
    }
    v
}

impl IdealTree {
    pub fn new(depth: usize) -> Self {
        IdealTree { depth, leaves: BTreeMap::new(), written: BTreeMap::new(), hwm: 0 }
    }
    pub fn cap(&self) -> u64 {
        1u64 << self.depth
    }
    pub fn leaf(&self, i: u64) -> BigUint {
        self.leaves.get(&i).cloned().unwrap_or_else(BigUint::zero)
    }
    pub fn set(&mut self, i: u64, v: &BigUint) {
        assert!(i < self.cap());
        if v.is_zero() {
            self.leaves.remove(&i);
        } else {
            self.leaves.insert(i, v.clone());
        }
        self.written.insert(i, true);
        self.hwm = self.hwm.max(i + 1);
    }
    /// removal: value back to default, flag cleared, high-water mark unchanged
    pub fn remove(&mut self, i: u64) {
        self.leaves.remove(&i);
        self.written.insert(i, false);
    }
    pub fn is_written(&self, i: u64) -> bool {
        *self.written.get(&i).unwrap_or(&false)
    }
    pub fn empty_indices(&self) -> Vec<u64> {
        (0..self.hwm).filter(|i| !self.is_written(*i)).collect()
    }
    /// node at (level, index); level 0 = root, level depth = leaves
    pub fn node(&self, level: usize, index: u64) -> BigUint {
        let dh = default_hashes(self.depth);
        self.node_rec(level, index, &dh)
    }
    fn node_rec(&self, level: usize, index: u64, dh: &[BigUint]) -> BigUint {
        if level == self.depth {
            return self.leaf(index);
        }
        let span = 1u64 << (self.depth - level);
        let lo = index * span;
        if self.leaves.range(lo..lo + span).next().is_none() {
            return dh[level].clone();
        }
        hash2(&self.node_rec(level + 1, 2 * index, dh), &self.node_rec(level + 1, 2 * index + 1, dh))
    }
    /// like `node`, remembering every node computed on the way in `cache` (one observation of a
    /// large tree asks for many overlapping subtrees)
    pub fn node_cached(&self, level: usize, index: u64, dh: &[BigUint], cache: &mut std::collections::HashMap<(usize, u64), BigUint>) -> BigUint {
        if level == self.depth {
            return self.leaf(index);
        }
        if let Some(v) = cache.get(&(level, index)) {
            return v.clone();
        }
        let span = 1u64 << (self.depth - level);
        let lo = index * span;
        let v = if self.leaves.range(lo..lo + span).next().is_none() {
            dh[level].clone()
        } else {
            hash2(&self.node_cached(level + 1, 2 * index, dh, cache), &self.node_cached(level + 1, 2 * index + 1, dh, cache))
        };
        cache.insert((level, index), v.clone());
        v
    }
    pub fn root(&self) -> BigUint {
        self.node(0, 0)
    }
    /// siblings bottom-up and direction bits (bit = 1 when the node on the path is a right child)
    pub fn path(&self, i: u64) -> (Vec<BigUint>, Vec<u8>) {
        let dh = default_hashes(self.depth);
        let mut sib = vec![];
        let mut bits = vec![];
        let mut idx = i;
        for level in (1..=self.depth).rev() {
            sib.push(self.node_rec(level, idx ^ 1, &dh));
            bits.push((idx & 1) as u8);
            idx >>= 1;
        }
        (sib, bits)
    }
}

pub fn fold_path(leaf: &BigUint, sib: &[BigUint], bits: &[u8]) -> BigUint {
    let mut acc = leaf.clone();
    for (s, b) in sib.iter().zip(bits.iter()) {
        acc = if *b == 0 { hash2(&acc, s) } else { hash2(s, &acc) };
    }
    acc
}

pub fn selftest() -> Result<(), String> {
    // depth-2 tree, leaves [1,2,3,0]: root = H(H(1,2),H(3,0)); path of leaf 2 folds to the root
    let mut t = IdealTree::new(2);
    t.set(0, &big(1));
    t.set(1, &big(2));
    t.set(2, &big(3));
    let want = hash2(&hash2(&big(1), &big(2)), &hash2(&big(3), &big(0)));
    if t.root() != want {
        return Err("ideal tree root".into());
    }
    let (s, b) = t.path(2);
    if b != vec![0, 1] || fold_path(&big(3), &s, &b) != want {
        return Err("ideal tree path".into());
    }
    if t.empty_indices() != Vec::<u64>::new() || t.hwm != 3 {
        return Err("ideal tree flags".into());
    }
    t.remove(1);
    if t.empty_indices() != vec![1] || t.leaf(1) != big(0) {
        return Err("ideal tree remove".into());
    }
    Ok(())
}
