//! BN254 scalar field helpers over BigUint.
use num_bigint::BigUint;
use num_traits::{One, Zero};
use std::sync::OnceLock;

pub const P_DEC: &str =
    "21888242871839275222246405745257275088548364400416034343698204186575808495617";

pub fn p() -> &'static BigUint {
    static P: OnceLock<BigUint> = OnceLock::new();
    P.get_or_init(|| BigUint::parse_bytes(P_DEC.as_bytes(), 10).unwrap())
}

pub fn big(n: u64) -> BigUint {
    BigUint::from(n)
}
pub fn pow2(k: u32) -> BigUint {
    BigUint::one() << k
}
pub fn fadd(a: &BigUint, b: &BigUint) -> BigUint {
    (a + b) % p()
}
pub fn fsub(a: &BigUint, b: &BigUint) -> BigUint {
    ((a + p()) - (b % p())) % p()
}
pub fn fmul(a: &BigUint, b: &BigUint) -> BigUint {
    (a * b) % p()
}
pub fn fneg(a: &BigUint) -> BigUint {
    if a.is_zero() {
        BigUint::zero()
    } else {
        p() - (a % p())
    }
}
pub fn fpow(a: &BigUint, e: &BigUint) -> BigUint {
    a.modpow(e, p())
}
pub fn finv(a: &BigUint) -> Option<BigUint> {
    if (a % p()).is_zero() {
        None
    } else {
        Some(a.modpow(&(p() - big(2)), p()))
    }
}
/// 32-byte little-endian encoding of a canonical element.
pub fn to_le32(a: &BigUint) -> [u8; 32] {
    let mut out = [0u8; 32];
    let b = a.to_bytes_le();
    assert!(b.len() <= 32, "value does not fit 32 bytes");
    out[..b.len()].copy_from_slice(&b);
    out
}
pub fn from_le(bytes: &[u8]) -> BigUint {
    BigUint::from_bytes_le(bytes)
}
pub fn from_le_mod(bytes: &[u8]) -> BigUint {
    BigUint::from_bytes_le(bytes) % p()
}
pub fn dec(s: &str) -> BigUint {
    BigUint::parse_bytes(s.as_bytes(), 10).unwrap()
}

/// The boundary alphabet F* used by the input explorers.
pub fn fstar() -> Vec<BigUint> {
    let p = p().clone();
    vec![
        big(0),
        big(1),
        big(2),
        pow2(64) - big(1),
        pow2(64),
        pow2(128),
        pow2(253),
        (&p - big(1)) / big(2),
        (&p + big(1)) / big(2),
        &p - big(2),
        &p - big(1),
    ]
}

/// Field values with a limb structure that boundary grids of the form 2^k +- 1 do not have: one 64-bit limb
/// forced to all zeros or all ones and the others random, pairs in the upper half that differ only in their
/// top limb, values just below and above multiples of small numbers of p's neighbourhood. Canonical (< p).
pub fn limb_patterns(seed: u64) -> Vec<BigUint> {
    let mut r = SplitMix(seed ^ 0x11b);
    let mut v = vec![];
    for limb in 0..4usize {
        for pat in [0u64, u64::MAX] {
            let mut l = [r.next_u64(), r.next_u64(), r.next_u64(), r.next_u64() >> 3];
            l[limb] = if limb == 3 { pat >> 3 } else { pat };
            let mut bytes = vec![];
            for x in l {
                bytes.extend_from_slice(&x.to_le_bytes());
            }
            v.push(BigUint::from_bytes_le(&bytes) % p());
        }
    }
    // upper half (negative in the signed reading), same low limbs, different top limb
    let low = BigUint::from(r.next_u64()) + (BigUint::from(r.next_u64()) << 64) + (BigUint::from(r.next_u64()) << 128);
    let top = (p() >> 192) - big(1);
    v.push((&low + (&top << 192)) % p());
    v.push((&low + ((&top - big(1)) << 192)) % p());
    // a value whose double, triple ... lands just above p
    v.push((p() + big(5)) / big(2));
    v.push((p() + big(7)) / big(3));
    // values whose Montgomery representation (v * 2^256 mod p, what the evaluators and hashers compute on) is itself
    // a boundary value, and the boundary values' own representations
    let r = pow2(256) % p();
    let rinv = finv(&r).unwrap();
    for b in [big(1), big(2), p() - big(1), pow2(64), pow2(128), pow2(192), (p() - big(1)) / big(2)] {
        v.push(fmul(&b, &rinv));
        v.push(fmul(&b, &r));
    }
    v.sort();
    v.dedup();
    v
}

/// splitmix64: deterministic pseudo-random stream owned by the harness (seeded by VERIF_SEED).
pub struct SplitMix(pub u64);
impl SplitMix {
    pub fn next_u64(&mut self) -> u64 {
        self.0 = self.0.wrapping_add(0x9E3779B97F4A7C15);
        let mut z = self.0;
        z = (z ^ (z >> 30)).wrapping_mul(0xBF58476D1CE4E5B9);
        z = (z ^ (z >> 27)).wrapping_mul(0x94D049BB133111EB);
        z ^ (z >> 31)
    }
    pub fn field(&mut self) -> BigUint {
        let mut b = [0u8; 40];
        for c in b.chunks_mut(8) {
            c.copy_from_slice(&self.next_u64().to_le_bytes());
        }
        BigUint::from_bytes_le(&b) % p()
    }
    pub fn bytes(&mut self, n: usize) -> Vec<u8> {
        let mut v = Vec::with_capacity(n + 8);
        while v.len() < n {
            v.extend_from_slice(&self.next_u64().to_le_bytes());
        }
        v.truncate(n);
        v
    }
}
