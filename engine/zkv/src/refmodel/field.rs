//! BN254 scalar field helpers over BigUint.
use num_bigint::BigUint;
use num_traits::{One, Zero};
use std::sync::OnceLock;

pub const P_DEC: &str =
    "21888242871839275222246405745257275088548364400416034343698204186575808495617";

pub fn p() -> &'static BigUint {
    static P: OnceLock<BigUint> = OnceLock::new();
    P.get_or_init(|| BigUint::parse_bytes(P_DEC.as_bytes(), 10).unwrap())
}

pub fn big(n: u64) -> BigUint {
    BigUint::from(n)
}
pub fn pow2(k: u32) -> BigUint {
    BigUint::one() << k
}
pub fn fadd(a: &BigUint, b: &BigUint) -> BigUint {
    (a + b) % p()
}
pub fn fsub(a: &BigUint, b: &BigUint) -> BigUint {
    ((a + p()) - (b % p())) % p()
}
pub fn fmul(a: &BigUint, b: &BigUint) -> BigUint {
    (a * b) % p()
}
pub fn fneg(a: &BigUint) -> BigUint {
    if a.is_zero() {
        BigUint::zero()
    } else {
        p() - (a % p())
    }
}
pub fn fpow(a: &BigUint, e: &BigUint) -> BigUint {
    a.modpow(e, p())
}
pub fn finv(a: &BigUint) -> Option<BigUint> {
    if (a % p()).is_zero() {
        None
    } else {
        Some(a.modpow(&(p() - big(2)), p()))
    }
}
/// 32-byte little-endian encoding of a canonical element.
pub fn to_le32(a: &BigUint) -> [u8; 32] {
    let mut out = [0u8; 32];
    let b = a.to_bytes_le();
    assert!(b.len() <= 32, "value does not fit 32 bytes");
    out[..b.len()].copy_from_slice(&b);
    out
}
pub fn from_le(bytes: &[u8]) -> BigUint {
    BigUint::from_bytes_le(bytes)
}
pub fn from_le_mod(bytes: &[u8]) -> BigUint {
    BigUint::from_bytes_le(bytes) % p()
}
pub fn dec(s: &str) -> BigUint {
    BigUint::parse_bytes(s.as_bytes(), 10).unwrap()
}

/// The boundary alphabet F* used by the input explorers.
pub fn fstar() -> Vec<BigUint> {
    let p = p().clone();
    vec![
        big(0),
        big(1),
        big(2),
        pow2(64) - big(1),
        pow2(64),
        pow2(128),
        pow2(253),
        (&p - big(1)) / big(2),
        (&p + big(1)) / big(2),
        &p - big(2),
        &p - big(1),
    ]
}

/// splitmix64: deterministic pseudo-random stream owned by the harness (seeded by VERIF_SEED).
pub struct SplitMix(pub u64);
impl SplitMix {
    pub fn next_u64(&mut self) -> u64 {
        self.0 = self.0.wrapping_add(0x9E3779B97F4A7C15);
        let mut z = self.0;
        z = (z ^ (z >> 30)).wrapping_mul(0xBF58476D1CE4E5B9);
        z = (z ^ (z >> 27)).wrapping_mul(0x94D049BB133111EB);
        z ^ (z >> 31)
    }
    pub fn field(&mut self) -> BigUint {
        let mut b = [0u8; 40];
        for c in b.chunks_mut(8) {
            c.copy_from_slice(&self.next_u64().to_le_bytes());
        }
        BigUint::from_bytes_le(&b) % p()
    }
    pub fn bytes(&mut self, n: usize) -> Vec<u8> {
        let mut v = Vec::with_capacity(n + 8);
        while v.len() < n {
            v.extend_from_slice(&self.next_u64().to_le_bytes());
        }
        v.truncate(n);
        v
    }
}
