//! Byte layouts, written from the documentation comments in rln/src/public.rs and protocol.rs:
//! field element = 32 bytes little-endian; vectors = u64 LE count + elements; usize = u64 LE.
use super::field::*;
use num_bigint::BigUint;

pub fn fr(b: &BigUint) -> Vec<u8> {
    to_le32(b).to_vec()
}
pub fn u64le(n: u64) -> Vec<u8> {
    n.to_le_bytes().to_vec()
}
pub fn vec_fr(v: &[BigUint]) -> Vec<u8> {
    let mut o = u64le(v.len() as u64);
    for x in v {
        o.extend_from_slice(&to_le32(x));
    }
    o
}
pub fn vec_u8(v: &[u8]) -> Vec<u8> {
    let mut o = u64le(v.len() as u64);
    o.extend_from_slice(v);
    o
}
pub fn vec_usize(v: &[u64]) -> Vec<u8> {
    let mut o = u64le(v.len() as u64);
    for x in v {
        o.extend_from_slice(&x.to_le_bytes());
    }
    o
}

#[derive(Clone, Debug, PartialEq, Eq)]
pub struct Witness {
    pub secret: BigUint,
    pub limit: BigUint,
    pub id: BigUint,
    pub path: Vec<BigUint>,
    pub index: Vec<u8>,
    pub x: BigUint,
    pub ext: BigUint,
}
/// [ identity_secret<32> | user_message_limit<32> | message_id<32> | path_elements[<32>] | identity_path_index<8> | x<32> | external_nullifier<32> ]
pub fn witness(w: &Witness) -> Vec<u8> {
    let mut o = fr(&w.secret);
    o.extend(fr(&w.limit));
    o.extend(fr(&w.id));
    o.extend(vec_fr(&w.path));
    o.extend(vec_u8(&w.index));
    o.extend(fr(&w.x));
    o.extend(fr(&w.ext));
    o
}

#[derive(Clone, Debug, PartialEq, Eq)]
pub struct ProofValues {
    pub root: BigUint,
    pub ext: BigUint,
    pub x: BigUint,
    pub y: BigUint,
    pub nullifier: BigUint,
}
/// [ root<32> | external_nullifier<32> | x<32> | y<32> | nullifier<32> ]
pub fn proof_values(v: &ProofValues) -> Vec<u8> {
    let mut o = fr(&v.root);
    o.extend(fr(&v.ext));
    o.extend(fr(&v.x));
    o.extend(fr(&v.y));
    o.extend(fr(&v.nullifier));
    o
}
pub fn decode_proof_values(b: &[u8]) -> Option<ProofValues> {
    if b.len() < 160 {
        return None;
    }
    let f = |i: usize| from_le(&b[32 * i..32 * i + 32]);
    Some(ProofValues { root: f(0), ext: f(1), x: f(2), y: f(3), nullifier: f(4) })
}
/// [ identity_secret<32> | id_index<8> | user_message_limit<32> | message_id<32> | external_nullifier<32> | signal_len<8> | signal<var> ]
pub fn prove_input(secret: &BigUint, index: u64, limit: &BigUint, id: &BigUint, ext: &BigUint, signal: &[u8]) -> Vec<u8> {
    let mut o = fr(secret);
    o.extend(u64le(index));
    o.extend(fr(limit));
    o.extend(fr(id));
    o.extend(fr(ext));
    o.extend(u64le(signal.len() as u64));
    o.extend_from_slice(signal);
    o
}
/// [ proof<128> | root<32> | external_nullifier<32> | x<32> | y<32> | nullifier<32> | signal_len<8> | signal<var> ]
pub fn verify_input(proof_and_values: &[u8], signal: &[u8]) -> Vec<u8> {
    let mut o = proof_and_values.to_vec();
    o.extend(u64le(signal.len() as u64));
    o.extend_from_slice(signal);
    o
}
/// get_proof output: path elements vector then direction-bit vector
pub fn decode_merkle_proof(b: &[u8]) -> Option<(Vec<BigUint>, Vec<u8>)> {
    if b.len() < 8 {
        return None;
    }
    let n = u64::from_le_bytes(b[0..8].try_into().ok()?) as usize;
    let mut off = 8;
    if b.len() < off + 32 * n + 8 {
        return None;
    }
    let mut path = vec![];
    for i in 0..n {
        path.push(from_le(&b[off + 32 * i..off + 32 * i + 32]));
    }
    off += 32 * n;
    let m = u64::from_le_bytes(b[off..off + 8].try_into().ok()?) as usize;
    off += 8;
    if b.len() != off + m {
        return None;
    }
    Some((path, b[off..].to_vec()))
}
pub fn decode_vec_usize(b: &[u8]) -> Option<Vec<u64>> {
    if b.len() < 8 {
        return None;
    }
    let n = u64::from_le_bytes(b[0..8].try_into().ok()?) as usize;
    if b.len() != 8 + 8 * n {
        return None;
    }
    Some((0..n).map(|i| u64::from_le_bytes(b[8 + 8 * i..16 + 8 * i].try_into().unwrap())).collect())
}

pub fn selftest() -> Result<(), String> {
    // fixed vectors: 1 -> 01 00..; p-1 -> 00 00 00 f0 93 f5 e1 43 ...
    let one = fr(&big(1));
    if one[0] != 1 || one[1..].iter().any(|b| *b != 0) {
        return Err("fr(1) layout".into());
    }
    let pm1 = fr(&(p() - big(1)));
    let want = "000000f093f5e1439170b97948e833285d588181b64550b829a031e1724e6430";
    let got: String = pm1.iter().map(|b| format!("{:02x}", b)).collect();
    if got != want {
        return Err(format!("fr(p-1) layout: {got}"));
    }
    if vec_fr(&[big(1), big(2)]).len() != 72 || vec_u8(&[1, 2, 3]) != vec![3, 0, 0, 0, 0, 0, 0, 0, 1, 2, 3] {
        return Err("vector layout".into());
    }
    Ok(())
}
