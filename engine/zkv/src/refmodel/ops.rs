//! circom operator semantics over the BN254 scalar field (circom language reference, "Basic
//! operators"; shift/bitwise details as in the circom runtime field library: 254-bit mask, then
//! one conditional subtraction of p; shift counts k >= 254 with p - k < 254 shift the other way).
use super::field::*;
use num_bigint::BigUint;
use num_traits::{One, Zero};

#[derive(Clone, Copy, Debug, PartialEq, Eq, Hash)]
pub enum Op {
    Mul, Div, Add, Sub, Pow, Idiv, Mod, Eq, Neq, Lt, Gt, Leq, Geq, Land, Lor, Shl, Shr, Bor, Band, Bxor,
}
pub const ALL_OPS: [Op; 20] = [
    Op::Mul, Op::Div, Op::Add, Op::Sub, Op::Pow, Op::Idiv, Op::Mod, Op::Eq, Op::Neq, Op::Lt, Op::Gt,
    Op::Leq, Op::Geq, Op::Land, Op::Lor, Op::Shl, Op::Shr, Op::Bor, Op::Band, Op::Bxor,
];

fn b2f(b: bool) -> BigUint {
    if b { BigUint::one() } else { BigUint::zero() }
}
/// signed representation: z - p if z >= (p+1)/2
fn is_neg(z: &BigUint) -> bool {
    z > &((p() - big(1)) / big(2))
}
fn signed_lt(a: &BigUint, b: &BigUint) -> bool {
    match (is_neg(a), is_neg(b)) {
        (false, false) | (true, true) => a < b,
        (true, false) => true,
        (false, true) => false,
    }
}
fn mask254() -> BigUint {
    pow2(254) - big(1)
}
fn small(k: &BigUint) -> Option<u32> {
    if k < &big(254) { Some(k.iter_u64_digits().next().unwrap_or(0) as u32) } else { None }
}
fn shl_plain(a: &BigUint, n: u32) -> BigUint {
    ((a << n) & mask254()) % p()
}
fn shr_plain(a: &BigUint, n: u32) -> BigUint {
    a >> n
}

/// Shift-count class, used for finding keys.
pub fn shift_class(k: &BigUint) -> &'static str {
    if small(k).is_some() {
        "count-lt-254"
    } else if small(&(p() - k)).is_some() {
        "count-negative"
    } else {
        "count-huge"
    }
}

pub fn eval(op: Op, a: &BigUint, b: &BigUint) -> BigUint {
    match op {
        Op::Mul => fmul(a, b),
        Op::Div => match finv(b) { Some(i) => fmul(a, &i), None => BigUint::zero() },
        Op::Add => fadd(a, b),
        Op::Sub => fsub(a, b),
        Op::Pow => fpow(a, b),
        Op::Idiv => if b.is_zero() { BigUint::zero() } else { a / b },
        Op::Mod => if b.is_zero() { BigUint::zero() } else { a % b },
        Op::Eq => b2f(a == b),
        Op::Neq => b2f(a != b),
        Op::Lt => b2f(signed_lt(a, b)),
        Op::Gt => b2f(signed_lt(b, a)),
        Op::Leq => b2f(!signed_lt(b, a)),
        Op::Geq => b2f(!signed_lt(a, b)),
        Op::Land => b2f(!a.is_zero() && !b.is_zero()),
        Op::Lor => b2f(!a.is_zero() || !b.is_zero()),
        Op::Shl => {
            if let Some(n) = small(b) { shl_plain(a, n) }
            else if let Some(n) = small(&(p() - b)) { shr_plain(a, n) }
            else { BigUint::zero() }
        }
        Op::Shr => {
            if let Some(n) = small(b) { shr_plain(a, n) }
            else if let Some(n) = small(&(p() - b)) { shl_plain(a, n) }
            else { BigUint::zero() }
        }
        Op::Bor => ((a | b) & mask254()) % p(),
        Op::Band => ((a & b) & mask254()) % p(),
        Op::Bxor => ((a ^ b) & mask254()) % p(),
    }
}
pub fn neg(a: &BigUint) -> BigUint {
    fneg(a)
}
pub fn tern(c: &BigUint, a: &BigUint, b: &BigUint) -> BigUint {
    if c.is_zero() { b.clone() } else { a.clone() }
}

/// The operand grid G of C19.
pub fn grid(full: bool) -> Vec<BigUint> {
    let mut v: Vec<BigUint> = vec![big(0), big(1), big(2)];
    let ks: Vec<u32> = if full {
        (8..=254).collect()
    } else {
        (8..=254).filter(|k| k % 8 == 0 || [31, 33, 63, 65, 127, 129, 191, 193, 252, 253, 254].contains(k)).collect()
    };
    for k in ks {
        for d in [-1i32, 0, 1] {
            let x = if d < 0 { pow2(k) - big(1) } else { pow2(k) + big(d as u64) };
            v.push(x % p());
        }
    }
    let p = p();
    v.push((p - big(1)) / big(2));
    v.push((p + big(1)) / big(2));
    v.push(p - big(2));
    v.push(p - big(1));
    v.extend(limb_patterns(19));
    // every power-of-two distance from the sign boundary (p-1)/2 and from the modulus
    let h = (p - big(1)) / big(2);
    for k in (8..=248u32).step_by(8) {
        v.push(&h - pow2(k));
        v.push((&h + pow2(k)) % p);
        v.push(p - pow2(k));
    }
    v.sort();
    v.dedup();
    v
}
