//! Keccak-256 (original Keccak padding 0x01, as used by Ethereum), own Keccak-f[1600].
const RC: [u64; 24] = [
    0x0000000000000001, 0x0000000000008082, 0x800000000000808a, 0x8000000080008000,
    0x000000000000808b, 0x0000000080000001, 0x8000000080008081, 0x8000000000008009,
    0x000000000000008a, 0x0000000000000088, 0x0000000080008009, 0x000000008000000a,
    0x000000008000808b, 0x800000000000008b, 0x8000000000008089, 0x8000000000008003,
    0x8000000000008002, 0x8000000000000080, 0x000000000000800a, 0x800000008000000a,
    0x8000000080008081, 0x8000000000008080, 0x0000000080000001, 0x8000000080008008,
];
const ROTC: [u32; 24] = [
    1, 3, 6, 10, 15, 21, 28, 36, 45, 55, 2, 14, 27, 41, 56, 8, 25, 43, 62, 18, 39, 61, 20, 44,
];
const PILN: [usize; 24] = [
    10, 7, 11, 17, 18, 3, 5, 16, 8, 21, 24, 4, 15, 23, 19, 13, 12, 2, 20, 14, 22, 9, 6, 1,
];

fn keccak_f(st: &mut [u64; 25]) {
    for rc in RC.iter() {
        let mut bc = [0u64; 5];
        for i in 0..5 {
            bc[i] = st[i] ^ st[i + 5] ^ st[i + 10] ^ st[i + 15] ^ st[i + 20];
        }
        for i in 0..5 {
            let t = bc[(i + 4) % 5] ^ bc[(i + 1) % 5].rotate_left(1);
            for j in (0..25).step_by(5) {
                st[j + i] ^= t;
            }
        }
        let mut t = st[1];
        for i in 0..24 {
            let j = PILN[i];
            let b = st[j];
            st[j] = t.rotate_left(ROTC[i]);
            t = b;
        }
        for j in (0..25).step_by(5) {
            let mut row = [0u64; 5];
            row.copy_from_slice(&st[j..j + 5]);
            for i in 0..5 {
                st[j + i] ^= (!row[(i + 1) % 5]) & row[(i + 2) % 5];
            }
        }
        st[0] ^= rc;
    }
}

pub fn keccak256(data: &[u8]) -> [u8; 32] {
    const RATE: usize = 136;
    let mut st = [0u64; 25];
    let mut padded = data.to_vec();
    padded.push(0x01);
    while padded.len() % RATE != 0 {
        padded.push(0);
    }
    let last = padded.len() - 1;
    padded[last] |= 0x80;
    for block in padded.chunks(RATE) {
        for i in 0..RATE / 8 {
            let mut w = [0u8; 8];
            w.copy_from_slice(&block[i * 8..i * 8 + 8]);
            st[i] ^= u64::from_le_bytes(w);
        }
        keccak_f(&mut st);
    }
    let mut out = [0u8; 32];
    for i in 0..4 {
        out[i * 8..i * 8 + 8].copy_from_slice(&st[i].to_le_bytes());
    }
    out
}

/// hash-to-field per the RLN spec: Keccak-256, read little-endian, reduce modulo p.
pub fn hash_to_field(data: &[u8]) -> num_bigint::BigUint {
    super::field::from_le_mod(&keccak256(data))
}

pub fn selftest() -> Result<(), String> {
    let h = |d: &[u8]| keccak256(d).iter().map(|b| format!("{:02x}", b)).collect::<String>();
    if h(b"") != "c5d2460186f7233c927e7db2dcc703c0e500b653ca82273b7bfad8045d85a470" {
        return Err("keccak256(\"\") vector".into());
    }
    if h(b"abc") != "4e03657aea45a94fc7d47ba826c8d667c0d1e6e33a64a036ec44f58fa12d6c45" {
        return Err("keccak256(\"abc\") vector".into());
    }
    Ok(())
}
