//! Reference models. Written from the specifications with num-bigint integers; none of them
//! calls zerokit for the thing it specifies.
pub mod chacha;
pub mod codec;
pub mod field;
pub mod keccak;
pub mod ops;
pub mod poseidon;
pub mod tree;
pub mod wtns;
