//! ChaCha20 keystream (64-bit block counter in words 12-13, stream id 0 in words 14-15), as
//! rand_chacha 0.3 ChaCha20Rng produces it, and ark-ff 0.5 `Fr::rand` rejection sampling on top.
use num_bigint::BigUint;

fn qr(s: &mut [u32; 16], a: usize, b: usize, c: usize, d: usize) {
    s[a] = s[a].wrapping_add(s[b]);
    s[d] = (s[d] ^ s[a]).rotate_left(16);
    s[c] = s[c].wrapping_add(s[d]);
    s[b] = (s[b] ^ s[c]).rotate_left(12);
    s[a] = s[a].wrapping_add(s[b]);
    s[d] = (s[d] ^ s[a]).rotate_left(8);
    s[c] = s[c].wrapping_add(s[d]);
    s[b] = (s[b] ^ s[c]).rotate_left(7);
}

pub struct ChaCha20 {
    key: [u32; 8],
    counter: u64,
    buf: Vec<u32>,
    pos: usize,
}

impl ChaCha20 {
    pub fn from_seed(seed: [u8; 32]) -> Self {
        let mut key = [0u32; 8];
        for i in 0..8 {
            key[i] = u32::from_le_bytes([seed[4 * i], seed[4 * i + 1], seed[4 * i + 2], seed[4 * i + 3]]);
        }
        ChaCha20 { key, counter: 0, buf: vec![], pos: 0 }
    }
    fn block(&mut self) {
        let mut s = [0u32; 16];
        s[0] = 0x61707865;
        s[1] = 0x3320646e;
        s[2] = 0x79622d32;
        s[3] = 0x6b206574;
        s[4..12].copy_from_slice(&self.key);
        s[12] = self.counter as u32;
        s[13] = (self.counter >> 32) as u32;
        s[14] = 0;
        s[15] = 0;
        let init = s;
        for _ in 0..10 {
            qr(&mut s, 0, 4, 8, 12);
            qr(&mut s, 1, 5, 9, 13);
            qr(&mut s, 2, 6, 10, 14);
            qr(&mut s, 3, 7, 11, 15);
            qr(&mut s, 0, 5, 10, 15);
            qr(&mut s, 1, 6, 11, 12);
            qr(&mut s, 2, 7, 8, 13);
            qr(&mut s, 3, 4, 9, 14);
        }
        for i in 0..16 {
            s[i] = s[i].wrapping_add(init[i]);
        }
        self.counter = self.counter.wrapping_add(1);
        self.buf = s.to_vec();
        self.pos = 0;
    }
    pub fn next_u32(&mut self) -> u32 {
        if self.pos >= self.buf.len() {
            self.block();
        }
        let v = self.buf[self.pos];
        self.pos += 1;
        v
    }
    pub fn next_u64(&mut self) -> u64 {
        // rand_core BlockRng::next_u64: two consecutive u32 words, low word first. The 64-word
        // buffer of rand_chacha (4 blocks) is a multiple of 2 words, so no straddling occurs.
        let lo = self.next_u32() as u64;
        let hi = self.next_u32() as u64;
        (hi << 32) | lo
    }
}

/// ark-ff 0.5 `Fp::rand`: four u64 limbs from the rng, the top (64*4 - 254) = 2 bits shaved,
/// retried until the raw integer is < p; the raw integer is taken as the *Montgomery* form, so the
/// element's value is raw * R^{-1} mod p with R = 2^256.
pub fn fr_rand(rng: &mut ChaCha20) -> BigUint {
    let p = super::field::p();
    loop {
        let mut limbs = [0u64; 4];
        for l in limbs.iter_mut() {
            *l = rng.next_u64();
        }
        limbs[3] &= u64::MAX >> 2;
        let mut bytes = Vec::with_capacity(32);
        for l in limbs.iter() {
            bytes.extend_from_slice(&l.to_le_bytes());
        }
        let raw = BigUint::from_bytes_le(&bytes);
        if &raw < p {
            let r = super::field::pow2(256) % p;
            let rinv = super::field::finv(&r).unwrap();
            return (raw * rinv) % p;
        }
    }
}
