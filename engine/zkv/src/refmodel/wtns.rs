//! Independent encoder for the `wtns.graph.001` container, written from the format comment in
//! storage.rs and the circom-witnesscalc messages.proto (field numbers and operator numbering):
//!   magic | u64 LE node count | nodes (varint length + protobuf Node) | varint length + GraphMetadata | u64 LE offset of the metadata
use num_bigint::BigUint;

#[derive(Clone, Debug, PartialEq, Eq, Hash, PartialOrd, Ord)]
pub enum GNode {
    Input(u32),
    Const(BigUint),
    Uno(u32, u32),
    Duo(u32, u32, u32),
    Tres(u32, u32, u32, u32),
}

fn varint(mut n: u64, out: &mut Vec<u8>) {
    loop {
        let b = (n & 0x7f) as u8;
        n >>= 7;
        if n == 0 {
            out.push(b);
            break;
        }
        out.push(b | 0x80);
    }
}
fn field_varint(tag: u32, v: u64, out: &mut Vec<u8>) {
    // proto3: scalar fields equal to the default are not written
    if v != 0 {
        varint(((tag as u64) << 3) | 0, out);
        varint(v, out);
    }
}
fn field_bytes(tag: u32, b: &[u8], out: &mut Vec<u8>) {
    varint(((tag as u64) << 3) | 2, out);
    varint(b.len() as u64, out);
    out.extend_from_slice(b);
}

pub fn encode_node(n: &GNode) -> Vec<u8> {
    let mut inner = vec![];
    let tag = match n {
        GNode::Input(i) => {
            field_varint(1, *i as u64, &mut inner);
            1
        }
        GNode::Const(c) => {
            let mut big = vec![];
            let le = c.to_bytes_le();
            if !le.is_empty() {
                field_bytes(1, &le, &mut big);
            }
            field_bytes(1, &big, &mut inner);
            2
        }
        GNode::Uno(op, a) => {
            field_varint(1, *op as u64, &mut inner);
            field_varint(2, *a as u64, &mut inner);
            3
        }
        GNode::Duo(op, a, b) => {
            field_varint(1, *op as u64, &mut inner);
            field_varint(2, *a as u64, &mut inner);
            field_varint(3, *b as u64, &mut inner);
            4
        }
        GNode::Tres(op, a, b, c) => {
            field_varint(1, *op as u64, &mut inner);
            field_varint(2, *a as u64, &mut inner);
            field_varint(3, *b as u64, &mut inner);
            field_varint(4, *c as u64, &mut inner);
            5
        }
    };
    let mut msg = vec![];
    field_bytes(tag, &inner, &mut msg);
    msg
}

pub fn encode_graph(nodes: &[GNode], signals: &[u32], inputs: &[(String, u32, u32)]) -> Vec<u8> {
    let mut out = b"wtns.graph.001".to_vec();
    out.extend_from_slice(&(nodes.len() as u64).to_le_bytes());
    for n in nodes {
        let m = encode_node(n);
        varint(m.len() as u64, &mut out);
        out.extend_from_slice(&m);
    }
    let md_off = out.len() as u64;
    let mut md = vec![];
    if !signals.is_empty() {
        let mut packed = vec![];
        for s in signals {
            varint(*s as u64, &mut packed);
        }
        field_bytes(1, &packed, &mut md);
    }
    for (name, off, len) in inputs {
        let mut entry = vec![];
        if !name.is_empty() {
            field_bytes(1, name.as_bytes(), &mut entry);
        }
        let mut sd = vec![];
        field_varint(1, *off as u64, &mut sd);
        field_varint(2, *len as u64, &mut sd);
        field_bytes(2, &sd, &mut entry);
        field_bytes(2, &entry, &mut md);
    }
    varint(md.len() as u64, &mut out);
    out.extend_from_slice(&md);
    out.extend_from_slice(&md_off.to_le_bytes());
    out
}
