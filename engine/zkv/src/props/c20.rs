//! C20 — any well-formed witness graph evaluates as specified and survives storage.
//! Program enumeration: every graph over a small node budget, every backward-reference pattern,
//! several input layouts, every input assignment over a boundary alphabet.
use super::*;
use crate::refmodel::field::*;
use crate::refmodel::ops::{self, Op};
use crate::refmodel::wtns::{self, GNode};
use rln::circuit::iden3calc::graph::{self, Node, Operation, TresOperation, UnoOperation};
use rln::circuit::iden3calc::storage::{deserialize_witnesscalc_graph, serialize_witnesscalc_graph};
use rln::circuit::iden3calc::{calc_witness, InputSignalsInfo};
use ruint::aliases::U256;
use serde_json::json;
use std::collections::BTreeSet;

pub struct C20;

fn subj_op(n: u32) -> Operation {
    use Operation::*;
    [Mul, Div, Add, Sub, Pow, Idiv, Mod, Eq, Neq, Lt, Gt, Leq, Geq, Land, Lor, Shl, Shr, Bor, Band, Bxor][n as usize]
}
fn to_subject(n: &GNode) -> Node {
    match n {
        GNode::Input(i) => Node::Input(*i as usize),
        GNode::Const(c) => Node::MontConstant(to_fr(c)),
        GNode::Uno(_, a) => Node::UnoOp(UnoOperation::Neg, *a as usize),
        GNode::Duo(op, a, b) => Node::Op(subj_op(*op), *a as usize, *b as usize),
        GNode::Tres(_, a, b, c) => Node::TresOp(TresOperation::TernCond, *a as usize, *b as usize, *c as usize),
    }
}
fn gnode_json(n: &GNode) -> Value {
    match n {
        GNode::Input(i) => json!({"k":"in","i":i}),
        GNode::Const(c) => json!({"k":"const","v":c.to_str_radix(10)}),
        GNode::Uno(o, a) => json!({"k":"uno","op":o,"a":a}),
        GNode::Duo(o, a, b) => json!({"k":"duo","op":o,"a":a,"b":b}),
        GNode::Tres(o, a, b, c) => json!({"k":"tres","op":o,"a":a,"b":b,"c":c}),
    }
}
fn gnode_from(v: &Value) -> Option<GNode> {
    let u = |k: &str| v[k].as_u64().map(|x| x as u32);
    Some(match v["k"].as_str()? {
        "in" => GNode::Input(u("i")?),
        "const" => GNode::Const(bdec(&v["v"])),
        "uno" => GNode::Uno(u("op")?, u("a")?),
        "duo" => GNode::Duo(u("op")?, u("a")?, u("b")?),
        "tres" => GNode::Tres(u("op")?, u("a")?, u("b")?, u("c")?),
        _ => return None,
    })
}

/// A graph with its declared inputs and one assignment of them.
#[derive(Clone, Debug)]
pub struct Case {
    pub layout: String,
    pub nodes: Vec<GNode>,
    pub signals: Vec<u32>,
    /// (name, offset, len)
    pub inputs: Vec<(String, u32, u32)>,
    /// values per declared input
    pub assign: Vec<Vec<BigUint>>,
}
impl Case {
    fn to_json(&self) -> Value {
        json!({
            "layout": self.layout,
            "nodes": self.nodes.iter().map(gnode_json).collect::<Vec<_>>(),
            "signals": self.signals,
            "inputs": self.inputs.iter().map(|(n, o, l)| json!([n, o, l])).collect::<Vec<_>>(),
            "assign": self.assign.iter().map(|v| v.iter().map(|x| x.to_str_radix(10)).collect::<Vec<_>>()).collect::<Vec<_>>(),
        })
    }
    fn from_json(v: &Value) -> Option<Case> {
        Some(Case {
            layout: v["layout"].as_str()?.to_string(),
            nodes: v["nodes"].as_array()?.iter().filter_map(gnode_from).collect(),
            signals: v["signals"].as_array()?.iter().filter_map(|x| x.as_u64().map(|y| y as u32)).collect(),
            inputs: v["inputs"].as_array()?.iter().filter_map(|e| Some((e[0].as_str()?.to_string(), e[1].as_u64()? as u32, e[2].as_u64()? as u32))).collect(),
            assign: v["assign"].as_array()?.iter().map(|a| a.as_array().map(|x| x.iter().map(bdec).collect()).unwrap_or_default()).collect(),
        })
    }
    fn buffer(&self) -> Vec<BigUint> {
        let size = self.nodes.iter().filter_map(|n| if let GNode::Input(i) = n { Some(*i as usize + 1) } else { None }).max().unwrap_or(1);
        let mut buf = vec![big(0); size];
        buf[0] = big(1);
        for ((_, off, len), vals) in self.inputs.iter().zip(self.assign.iter()) {
            for k in 0..*len as usize {
                if (*off as usize + k) < size {
                    buf[*off as usize + k] = vals[k].clone();
                }
            }
        }
        buf
    }
}

/// direct reference interpretation
pub fn ref_values(nodes: &[GNode], buffer: &[BigUint]) -> Vec<BigUint> {
    let mut vals: Vec<BigUint> = Vec::with_capacity(nodes.len());
    for n in nodes {
        let v = match n {
            GNode::Input(i) => buffer[*i as usize].clone(),
            GNode::Const(c) => c % p(),
            GNode::Uno(_, a) => ops::neg(&vals[*a as usize]),
            GNode::Duo(op, a, b) => ops::eval(ops::ALL_OPS[*op as usize], &vals[*a as usize], &vals[*b as usize]),
            GNode::Tres(_, c, a, b) => ops::tern(&vals[*c as usize], &vals[*a as usize], &vals[*b as usize]),
        };
        vals.push(v);
    }
    vals
}

fn top_kind(nodes: &[GNode]) -> String {
    match nodes.last() {
        Some(GNode::Duo(op, ..)) => format!("{:?}", ops::ALL_OPS[*op as usize]),
        Some(GNode::Uno(..)) => "Neg".into(),
        Some(GNode::Tres(..)) => "TernCond".into(),
        Some(GNode::Const(_)) => "Const".into(),
        Some(GNode::Input(_)) => "Input".into(),
        None => "empty".into(),
    }
}

impl C20 {
    /// storage checks for one graph (independent of the assignment)
    fn storage(&self, c: &Case, out: &mut Vec<Discrepancy>) -> Option<Vec<u8>> {
        let nodes: Vec<Node> = c.nodes.iter().map(to_subject).collect();
        let signals: Vec<usize> = c.signals.iter().map(|s| *s as usize).collect();
        let mut info: InputSignalsInfo = InputSignalsInfo::new();
        for (n, o, l) in &c.inputs {
            info.insert(n.clone(), (*o as usize, *l as usize));
        }
        let cj = c.to_json();
        let lay = &c.layout;
        // zerokit's writer, then zerokit's reader
        let mut bytes_z = vec![];
        match guard(|| serialize_witnesscalc_graph(&mut bytes_z, &nodes, &signals, &info)) {
            Ok(Ok(())) => {}
            Ok(Err(e)) => { out.push(Discrepancy { key: format!("C20/serialize/{lay}/error"), case: cj.clone(), detail: format!("serialize failed: {e}") }); return None; }
            Err(pn) => { out.push(Discrepancy { key: format!("C20/serialize/{lay}/panic"), case: cj.clone(), detail: format!("serialize panicked: {pn}") }); return None; }
        }
        match guard(|| deserialize_witnesscalc_graph(std::io::Cursor::new(&bytes_z))) {
            Ok(Ok((n2, s2, i2))) => {
                if n2 != nodes || s2 != signals || i2 != info {
                    out.push(Discrepancy { key: format!("C20/roundtrip/{lay}/not-equal"), case: cj.clone(), detail: format!("deserialize(serialize(g)) != g (top node {})", top_kind(&c.nodes)) });
                }
            }
            Ok(Err(e)) => out.push(Discrepancy { key: format!("C20/roundtrip/{lay}/error"), case: cj.clone(), detail: format!("deserialize of zerokit's own output failed: {e}") }),
            Err(pn) => out.push(Discrepancy { key: format!("C20/roundtrip/{lay}/panic"), case: cj.clone(), detail: format!("deserialize panicked: {pn}") }),
        }
        // the independent writer, then zerokit's reader
        let bytes_r = wtns::encode_graph(&c.nodes, &c.signals, &c.inputs);
        match guard(|| deserialize_witnesscalc_graph(std::io::Cursor::new(&bytes_r))) {
            Ok(Ok((n2, s2, i2))) => {
                if n2 != nodes || s2 != signals || i2 != info {
                    out.push(Discrepancy { key: format!("C20/read-reference-encoding/{lay}/not-equal"), case: cj.clone(), detail: format!("a graph written by the reference encoder is read back differently (top node {})", top_kind(&c.nodes)) });
                }
            }
            Ok(Err(e)) => out.push(Discrepancy { key: format!("C20/read-reference-encoding/{lay}/error"), case: cj.clone(), detail: format!("{e}") }),
            Err(pn) => out.push(Discrepancy { key: format!("C20/read-reference-encoding/{lay}/panic"), case: cj.clone(), detail: pn }),
        }
        // byte equality with the reference encoding, for some order of the input map entries
        // (the input map is written in the hash map's iteration order: any order of its entries is accepted)
        let mut equal = bytes_r == bytes_z;
        if !equal && c.inputs.len() <= 4 {
            fn perms(v: &[(String, u32, u32)]) -> Vec<Vec<(String, u32, u32)>> {
                if v.len() <= 1 { return vec![v.to_vec()]; }
                let mut out = vec![];
                for i in 0..v.len() {
                    let mut rest = v.to_vec();
                    let x = rest.remove(i);
                    for mut p in perms(&rest) { p.insert(0, x.clone()); out.push(p); }
                }
                out
            }
            equal = perms(&c.inputs).iter().any(|p| wtns::encode_graph(&c.nodes, &c.signals, p) == bytes_z);
        }
        if !equal {
            out.push(Discrepancy { key: format!("C20/write-vs-reference-encoding/{lay}/bytes-differ"), case: cj, detail: format!("zerokit's container bytes differ from the reference encoding (top node {})", top_kind(&c.nodes)) });
        }
        Some(bytes_z)
    }

    /// evaluation checks for one (graph, assignment)
    fn evaluate(&self, c: &Case, bytes: Option<&[u8]>, out: &mut Vec<Discrepancy>) {
        let buffer = c.buffer();
        let want_all = ref_values(&c.nodes, &buffer);
        let want: Vec<BigUint> = c.signals.iter().map(|s| want_all[*s as usize].clone()).collect();
        let nodes: Vec<Node> = c.nodes.iter().map(to_subject).collect();
        let signals: Vec<usize> = c.signals.iter().map(|s| *s as usize).collect();
        let ubuf: Vec<U256> = buffer.iter().map(super::c19::to_u256).collect();
        let lay = &c.layout;
        match guard(|| graph::evaluate(&nodes, &ubuf, &signals)) {
            Ok(got) => {
                let g: Vec<BigUint> = got.iter().map(from_fr).collect();
                if g != want {
                    let k = g.iter().zip(want.iter()).position(|(a, b)| a != b).unwrap_or(0);
                    out.push(Discrepancy { key: format!("C20/evaluate/{lay}/wrong-value"), case: c.to_json(), detail: format!("signal {k}: expected {} got {} (top node {})", want[k], g[k], top_kind(&c.nodes)) });
                }
            }
            Err(pn) => out.push(Discrepancy { key: format!("C20/evaluate/{lay}/panic"), case: c.to_json(), detail: format!("evaluate panicked: {pn}") }),
        }
        if let Some(bytes) = bytes {
            // named inputs in declaration order and reversed
            for rev in [false, true] {
                let mut named: Vec<(String, Vec<Fr>)> = c.inputs.iter().zip(c.assign.iter()).map(|((n, _, _), v)| (n.clone(), v.iter().map(to_fr).collect())).collect();
                if rev {
                    named.reverse();
                }
                match guard(|| calc_witness(named, bytes)) {
                    Ok(got) => {
                        let g: Vec<BigUint> = got.iter().map(from_fr).collect();
                        if g != want {
                            out.push(Discrepancy { key: format!("C20/calc_witness/{lay}/wrong-value"), case: c.to_json(), detail: format!("expected {:?} got {:?}", want.iter().map(|x| x.to_string()).collect::<Vec<_>>(), g.iter().map(|x| x.to_string()).collect::<Vec<_>>()) });
                        }
                    }
                    Err(pn) => out.push(Discrepancy { key: format!("C20/calc_witness/{lay}/panic"), case: c.to_json(), detail: format!("calc_witness panicked: {pn}") }),
                }
            }
        }
    }
}

/// all nodes that can be appended to a graph of `n` nodes
fn candidates(n: u32, duo_ops: &[u32], tern_full: bool) -> Vec<GNode> {
    let mut v = vec![];
    for a in 0..n {
        v.push(GNode::Uno(0, a));
    }
    for op in duo_ops {
        for a in 0..n {
            for b in 0..n {
                v.push(GNode::Duo(*op, a, b));
            }
        }
    }
    for c in 0..n {
        if !tern_full && c != n - 1 {
            continue;
        }
        for a in 0..n {
            for b in 0..n {
                v.push(GNode::Tres(0, c, a, b));
            }
        }
    }
    v
}

struct Layout {
    name: &'static str,
    base: Vec<GNode>,
    inputs: Vec<(String, u32, u32)>,
}
fn layouts(c: &BigUint) -> Vec<Layout> {
    let s = |x: &str| x.to_string();
    vec![
        Layout { name: "contiguous", base: vec![GNode::Input(1), GNode::Input(2), GNode::Const(c.clone())], inputs: vec![(s("a"), 1, 1), (s("b"), 2, 1)] },
        Layout { name: "interleaved", base: vec![GNode::Input(1), GNode::Const(c.clone()), GNode::Input(2)], inputs: vec![(s("a"), 1, 1), (s("b"), 2, 1)] },
        Layout { name: "vector", base: vec![GNode::Input(1), GNode::Input(2), GNode::Const(c.clone())], inputs: vec![(s("v"), 1, 2)] },
        Layout { name: "swapped-gap", base: vec![GNode::Input(3), GNode::Const(c.clone()), GNode::Input(1)], inputs: vec![(s("a"), 3, 1), (s("b"), 1, 1)] },
        Layout { name: "with-one", base: vec![GNode::Input(0), GNode::Input(1), GNode::Input(2)], inputs: vec![(s("a"), 1, 1), (s("b"), 2, 1)] },
    ]
}
fn assignments(l: &Layout, alpha: &[BigUint]) -> Vec<Vec<Vec<BigUint>>> {
    let mut out = vec![];
    for x in alpha {
        for y in alpha {
            if l.inputs.len() == 1 {
                out.push(vec![vec![x.clone(), y.clone()]]);
            } else {
                out.push(vec![vec![x.clone()], vec![y.clone()]]);
            }
        }
    }
    out
}

/// Larger graphs of fixed shapes (enumerated, not sampled): chains of N nodes whose last node refers far back,
/// for N around the 1-byte / 2-byte varint and u8 boundaries; constants of every encoded byte length class;
/// three named inputs incl. a vector at a large offset; long names (metadata block above 127 bytes); output
/// lists longer than the node list.
fn big_shapes() -> Vec<Case> {
    let mut out = vec![];
    let consts: Vec<BigUint> = vec![big(0), big(255), big(256), pow2(240), pow2(248) - big(1), pow2(248), p() - big(1)];
    // (node counts around 2^7, 2^8, 2^14 and 2^16: the widths at which counts and back references change their encoded size)
    for n in [6usize, 127, 128, 129, 255, 256, 257, 300, 16384, 16385, 65535, 65536, 65537, 100_000] {
        for (ci, c) in consts.iter().enumerate() {
            if n > 300 && ci > 1 || n > 20_000 && ci > 0 {
                continue;
            }
            for last_op in [2u32, 0, 3, 9, 16, 18] {
                if n > 20_000 && last_op != 2 && last_op != 9 {
                    continue;
                }
                let mut nodes = vec![GNode::Input(1), GNode::Input(2), GNode::Const(c.clone())];
                for i in 3..n - 1 {
                    let op = [2u32, 0, 3][i % 3];
                    nodes.push(GNode::Duo(op, (i - 1) as u32, (i - 2) as u32));
                }
                nodes.push(GNode::Duo(last_op, 0, (n - 2) as u32));
                let nn = nodes.len() as u32;
                let signals: Vec<u32> = vec![nn - 1, 0, nn - 1, 2, nn - 2];
                for (a, b) in [(big(1), big(2)), (p() - big(1), big(3))] {
                    out.push(Case { layout: format!("chain-{n}"), nodes: nodes.clone(), signals: signals.clone(), inputs: vec![("a".into(), 1, 1), ("b".into(), 2, 1)], assign: vec![vec![a], vec![b]] });
                }
            }
        }
    }
    // output lists that push the metadata block across the 1-, 2- and 3-byte length-prefix boundaries
    for nsig in [100usize, 127, 128, 16_380, 16_384, 20_000] {
        let nodes = vec![GNode::Input(1), GNode::Input(2), GNode::Const(big(3)), GNode::Duo(2, 0, 1), GNode::Duo(0, 3, 2)];
        let signals: Vec<u32> = (0..nsig).map(|k| (k % 5) as u32).collect();
        out.push(Case { layout: format!("outputs-{nsig}"), nodes, signals, inputs: vec![("a".into(), 1, 1), ("b".into(), 2, 1)], assign: vec![vec![big(4)], vec![p() - big(2)]] });
    }
    // three named inputs, a vector of length 3 at a large offset, long names, many outputs
    for off in [3u32, 130, 300] {
        let long = "x".repeat(150);
        let nodes = vec![GNode::Input(1), GNode::Input(off), GNode::Input(off + 1), GNode::Input(off + 2), GNode::Input(2), GNode::Duo(2, 1, 2), GNode::Duo(0, 5, 3), GNode::Duo(3, 6, 4), GNode::Tres(0, 0, 7, 4)];
        let signals: Vec<u32> = (0..40).map(|k| (k * 7 % 9) as u32).collect();
        out.push(Case { layout: format!("three-inputs-offset-{off}"), nodes, signals, inputs: vec![("first".into(), 1, 1), (long, off, 3), ("last".into(), 2, 1)], assign: vec![vec![big(0)], vec![big(5), p() - big(1), pow2(64)], vec![big(9)]] });
    }
    out
}

/// a reader that hands out at most `chunk` bytes per call (a pipe, a socket, a buffered file: `Read::read` may
/// return fewer bytes than asked for)
struct ShortReads<'a> {
    data: &'a [u8],
    pos: usize,
    chunk: usize,
}
impl std::io::Read for ShortReads<'_> {
    fn read(&mut self, buf: &mut [u8]) -> std::io::Result<usize> {
        let n = buf.len().min(self.chunk).min(self.data.len() - self.pos);
        buf[..n].copy_from_slice(&self.data[self.pos..self.pos + n]);
        self.pos += n;
        Ok(n)
    }
}

impl C20 {
    /// the container read through readers that return short reads must decode to the same graph as from a slice
    fn short_reads(&self, name: &str, bytes: &[u8]) -> Vec<Discrepancy> {
        let mut out = vec![];
        let case = json!({"kind": "short-reads", "graph": name});
        let want = match guard(|| deserialize_witnesscalc_graph(std::io::Cursor::new(bytes))) { Ok(Ok(w)) => w, _ => return out };
        for chunk in [1usize, 2, 7, 4096, 8192] {
            match guard(|| deserialize_witnesscalc_graph(ShortReads { data: bytes, pos: 0, chunk })) {
                Ok(Ok(got)) => {
                    if got != want {
                        out.push(Discrepancy { key: "C20/read-in-pieces/not-equal".into(), case: case.clone(), detail: format!("{name}: read {chunk} bytes at a time the container decodes to another graph than read from a slice") });
                    }
                }
                Ok(Err(e)) => out.push(Discrepancy { key: "C20/read-in-pieces/error".into(), case: case.clone(), detail: format!("{name}: read {chunk} bytes at a time: {e}") }),
                Err(pn) => out.push(Discrepancy { key: "C20/read-in-pieces/panic".into(), case: case.clone(), detail: format!("{name}: read {chunk} bytes at a time: {pn}") }),
            }
        }
        out
    }
}

/// the graphs of the C20 evaluation sequences: two small ones of equal encoded length, two chains of 16 384 nodes of
/// equal encoded length (different last operator), one with three named inputs
fn seq_graphs() -> Vec<Case> {
    let mut v = vec![];
    // (operator codes 2 = Add and 3 = Sub: a zero code would be omitted by the encoding and change the length)
    for op in [2u32, 3] {
        v.push(Case { layout: "seq-small".into(), nodes: vec![GNode::Input(1), GNode::Input(2), GNode::Const(big(3)), GNode::Duo(op, 0, 1), GNode::Duo(0, 3, 2)], signals: vec![4, 3, 0], inputs: vec![("a".into(), 1, 1), ("b".into(), 2, 1)], assign: vec![vec![big(5)], vec![big(7)]] });
    }
    let big_ones: Vec<Case> = big_shapes().into_iter().filter(|c| c.layout == "chain-16384").collect();
    // same constant and assignment, last operators Add (2) and Sub (3)
    let pick = |last: u32| big_ones.iter().find(|c| matches!(c.nodes.last(), Some(GNode::Duo(o, _, _)) if *o == last) && c.assign[0][0] == big(1) && matches!(&c.nodes[2], GNode::Const(k) if *k == big(0))).cloned();
    v.extend(pick(2));
    v.extend(pick(3));
    v.extend(big_shapes().into_iter().filter(|c| c.layout == "three-inputs-offset-3"));
    v
}

impl C20 {
    /// A sequence of witness computations on ONE fresh thread from ONE reused byte buffer: code k < n evaluates graph k
    /// of `seq_graphs` (its reference encoding is copied into the buffer first), code n hands over a truncated copy of
    /// graph 0 (must be refused). Every accepted computation must return the reference values of ITS graph.
    fn seq(&self, codes: &[u8]) -> Vec<Discrepancy> {
        let case = json!({"kind": "seq", "calls": codes});
        let codes: Vec<u8> = codes.to_vec();
        let h = std::thread::spawn(move || -> Vec<(usize, &'static str, String)> {
            let gs = seq_graphs();
            let encs: Vec<Vec<u8>> = gs.iter().map(|c| wtns::encode_graph(&c.nodes, &c.signals, &c.inputs)).collect();
            let mut buf: Vec<u8> = Vec::with_capacity(encs.iter().map(|e| e.len()).max().unwrap_or(0) + 16);
            let mut bad = vec![];
            for (k, code) in codes.iter().enumerate() {
                let gi = *code as usize;
                buf.clear();
                if gi >= gs.len() {
                    buf.extend_from_slice(&encs[0][..encs[0].len() / 2]);
                    match guard(|| rln::circuit::iden3calc::try_calc_witness(vec![("a".to_string(), vec![to_fr(&big(5))]), ("b".to_string(), vec![to_fr(&big(7))])], &buf)) {
                        Err(pn) => bad.push((k, "panic", pn)),
                        Ok(Ok(_)) => bad.push((k, "malformed-accepted", "half of a graph container was evaluated".into())),
                        Ok(Err(_)) => {}
                    }
                    continue;
                }
                let c = &gs[gi];
                buf.extend_from_slice(&encs[gi]);
                let want_all = ref_values(&c.nodes, &c.buffer());
                let want: Vec<BigUint> = c.signals.iter().map(|s| want_all[*s as usize].clone()).collect();
                let named: Vec<(String, Vec<Fr>)> = c.inputs.iter().zip(c.assign.iter()).map(|((n, _, _), v)| (n.clone(), v.iter().map(to_fr).collect())).collect();
                match guard(|| rln::circuit::iden3calc::try_calc_witness(named, &buf)) {
                    Err(pn) => bad.push((k, "panic", pn)),
                    Ok(Err(e)) => bad.push((k, "refused", e)),
                    Ok(Ok(got)) => {
                        let g: Vec<BigUint> = got.iter().map(from_fr).collect();
                        if g != want {
                            let i = g.iter().zip(want.iter()).position(|(a, b)| a != b).unwrap_or(0);
                            bad.push((k, "wrong-value", format!("graph {gi} ({}): signal {i}: expected {} got {} ({} values, {} expected)", c.layout, want.get(i).cloned().unwrap_or_default(), g.get(i).cloned().unwrap_or_default(), g.len(), want.len())));
                        }
                    }
                }
            }
            bad
        });
        match h.join().unwrap_or_default().first() {
            Some((k, sym, d)) => vec![Discrepancy { key: format!("C20/calc_witness/after-other-graphs/{sym}"), case, detail: format!("computation number {k} of the sequence: {d}") }],
            None => vec![],
        }
    }
}

impl Prop for C20 {
    fn id(&self) -> &'static str {
        "C20"
    }
    fn level(&self) -> &'static str {
        "exploration"
    }
    fn run_case(&self, case: &Value) -> Vec<Discrepancy> {
        if case["kind"] == "short-reads" {
            let name = case["graph"].as_str().unwrap_or("");
            if name == "bundled" {
                return self.short_reads(name, rln::circuit::graph_from_folder());
            }
            return seq_graphs().iter().enumerate().filter(|(k, _)| format!("sequence-graph-{k}") == name).flat_map(|(_, c)| self.short_reads(name, &wtns::encode_graph(&c.nodes, &c.signals, &c.inputs))).collect();
        }
        if case["kind"] == "seq" {
            return self.seq(&case["calls"].as_array().cloned().unwrap_or_default().iter().map(|x| x.as_u64().unwrap_or(0) as u8).collect::<Vec<u8>>());
        }
        let mut out = vec![];
        if let Some(c) = Case::from_json(case) {
            let bytes = self.storage(&c, &mut out);
            self.evaluate(&c, bytes.as_deref(), &mut out);
        }
        out
    }
    fn explore(&self, ctx: &Ctx, findings: &Findings, ev: &mut Evidence) -> Result<(), String> {
        let q = ctx.tier == Tier::Quick;
        // Pow (4) is outside the Montgomery evaluator's documented domain
        let all_ops: Vec<u32> = (0u32..20).filter(|o| *o != 4).collect();
        let reduced: Vec<u32> = vec![2, 0, 1, 9, 16, 18, 5, 7]; // Add Mul Div Lt Shr Band Idiv Eq
        let alpha: Vec<BigUint> = vec![big(0), big(1), big(2), p() - big(1)];
        let alpha_small: Vec<BigUint> = vec![big(1), p() - big(1)];
        let consts: Vec<BigUint> = vec![p() - big(1), big(0), big(1)];

        // work items: (const, layout index, first node)
        struct Item {
            ci: usize,
            li: usize,
            first: GNode,
            depth: usize,
        }
        let mut items = vec![];
        for (ci, _) in consts.iter().enumerate() {
            for li in 0..5 {
                let two = if q { ci == 0 && li < 2 } else { true };
                for first in candidates(3, &all_ops, true) {
                    let depth = if !two { 1 } else if !q && ci == 0 && li < 2 { 3 } else { 2 };
                    items.push(Item { ci, li, first, depth });
                }
            }
        }
        let res = par_map(&items, ncpu(), |_, it| {
            let lays = layouts(&consts[it.ci]);
            let l = &lays[it.li];
            let mut out = vec![];
            let mut graphs = 0u64;
            let mut evals = 0u64;
            let mut sample: Option<Value> = None;
            let mut run = |nodes: Vec<GNode>, alpha: &[BigUint], out: &mut Vec<Discrepancy>, graphs: &mut u64, evals: &mut u64, sample: &mut Option<Value>| {
                let n = nodes.len() as u32;
                let mut signals: Vec<u32> = (0..n).collect();
                // an output list with a repetition and in non-increasing order, besides "every node"
                signals.push(n - 1);
                signals.push(0);
                let mut c = Case { layout: l.name.to_string(), nodes, signals, inputs: l.inputs.clone(), assign: vec![] };
                let bytes = self.storage(&c, out);
                *graphs += 1;
                for a in assignments(l, alpha) {
                    c.assign = a;
                    self.evaluate(&c, bytes.as_deref(), out);
                    *evals += 1;
                }
                if sample.is_none() {
                    *sample = Some(c.to_json());
                }
            };
            let mut g1 = l.base.clone();
            g1.push(it.first.clone());
            run(g1.clone(), &alpha, &mut out, &mut graphs, &mut evals, &mut sample);
            if it.depth >= 2 {
                for second in candidates(4, &all_ops, true) {
                    let mut g2 = g1.clone();
                    g2.push(second);
                    run(g2.clone(), &alpha, &mut out, &mut graphs, &mut evals, &mut sample);
                    if it.depth >= 3 {
                        for third in candidates(5, &reduced, false) {
                            let mut g3 = g2.clone();
                            g3.push(third);
                            run(g3, &alpha_small, &mut out, &mut graphs, &mut evals, &mut sample);
                        }
                    }
                }
            }
            (out, graphs, evals, sample)
        });
        let mut graphs = 0u64;
        let mut evals = 0u64;
        let mut keys = BTreeSet::new();
        for (out, g, e, s) in res {
            graphs += g;
            evals += e;
            for d in &out {
                keys.insert(d.key.clone());
            }
            findings.report_all(out);
            if let Some(s) = s {
                if (graphs % 7 == 1 || ev.get("_n") < 3) && ev.get("_n") < 10 {
                    ev.sample(s);
                    ev.add("_n", 1);
                }
            }
        }
        ev.coverage.remove("_n");
        // larger graphs of fixed shapes
        let shapes = big_shapes();
        let sres = par_map(&shapes, ncpu(), |_, c| {
            let mut o = vec![];
            let bytes = self.storage(c, &mut o);
            self.evaluate(c, bytes.as_deref(), &mut o);
            o
        });
        for o in sres {
            findings.report_all(o);
        }
        graphs += shapes.len() as u64;
        evals += shapes.len() as u64;
        ev.set("large_shape_graphs", json!(shapes.len()));
        // the bundled graph and the sequence graphs read through readers that return short reads
        {
            let mut items: Vec<(String, Vec<u8>)> = vec![("bundled".to_string(), rln::circuit::graph_from_folder().to_vec())];
            for (k, c) in seq_graphs().iter().enumerate() {
                items.push((format!("sequence-graph-{k}"), wtns::encode_graph(&c.nodes, &c.signals, &c.inputs)));
            }
            let rres = par_map(&items, ncpu(), |_, (n, b)| self.short_reads(n, b));
            for o in rres {
                findings.report_all(o);
            }
            evals += 5 * items.len() as u64;
            ev.set("containers_read_in_pieces", json!(items.len()));
        }
        // sequences of computations over different graphs from one reused buffer on a fresh thread
        let ng = seq_graphs().len() as u8;
        let mut seqs: Vec<Vec<u8>> = vec![];
        {
            let mut cur: Vec<Vec<u8>> = vec![vec![]];
            for _ in 0..(if q { 3 } else { 4 }) {
                let mut next = vec![];
                for h in &cur {
                    for c in 0..=ng {
                        let mut n = h.clone();
                        n.push(c);
                        next.push(n);
                    }
                }
                seqs.extend(next.iter().cloned());
                cur = next;
            }
        }
        let qres = par_map(&seqs, ncpu(), |_, sq| self.seq(sq));
        for o in qres {
            findings.report_all(o);
        }
        evals += seqs.len() as u64;
        ev.set("graph_sequences_on_one_thread", json!(seqs.len()));
        ev.set("evaluations", json!(evals));
        ev.set("programs", json!(graphs));
        ev.set("distinct_nontrivial", json!(graphs));
        ev.set("rule", json!("program enumeration: base nodes (two inputs and one constant, five declared-input layouts incl. interleaved, vector, swapped with a gap, constant-one signal) followed by every possible 1st operation node (Neg, 19 binary operators x all operand references, TernCond x all references), every possible 2nd node, and (thorough) every 3rd node over a reduced operator set; each graph is (a) written by zerokit and read back, (b) written by an independent encoder and read by zerokit, (c) compared byte for byte with the independent encoding, (d) evaluated by graph::evaluate and by calc_witness (named inputs in both orders) on every assignment of the inputs over {0,1,2,p-1}^2 and compared with a direct reference interpretation; additionally larger graphs of fixed shapes: chains of N nodes (N around 127/128, 255/256, 16384) whose last node refers back to node 0, constants of every encoded length class, three named inputs with a vector at offsets 3/130/300 and a 150-character name, 40-element output lists; the bundled graph and five others decoded through readers that return 1, 2, 7, 4096 or 8192 bytes per read; every sequence of up to 3 (thorough 4) computations over {two small graphs of equal encoded length, two 16 384-node chains of equal encoded length, a three-input graph, half a container (refused)} read from one reused buffer on a fresh thread, each compared with the reference values of its own graph; distinct_nontrivial = distinct graphs (each has at least one operation node)"));
        ev.set("exhaustive", json!(true));
        ev.set("node_budget", json!(if q { "3 base + <= 2 operation nodes" } else { "3 base + <= 3 operation nodes (3rd over a reduced operator set, 2 layouts)" }));
        ev.assume("operator semantics are those of the C19 reference; Pow and Id are outside the Montgomery evaluator's documented domain");
        ev.assume("graphs larger than the node budget, constants other than {0,1,p-1} and inputs outside {0,1,2,p-1} are not covered");
        Ok(())
    }
}
