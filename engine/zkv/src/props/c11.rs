//! C11 — the C FFI is behaviourally identical to the Rust API.
//! Lockstep search: context A is driven only through `rln::ffi::*`, instance B only through
//! `RLN::*`; every call sequence up to a bound; after every call flags, output buffers, verdicts
//! and the full tree state are compared.
use super::msg::*;
use super::rlnsub::*;
use super::tree::val;
use super::*;
use crate::refmodel::codec;
use crate::refmodel::field::*;
use rln::ffi::{self, Buffer};
use rln::public::RLN;
use serde_json::json;
use std::io::Cursor;

pub struct C11;

const H: usize = 3;

#[derive(Clone, Debug, PartialEq, Eq)]
pub enum Call {
    SetLeaf(usize, Vec<u8>),
    DeleteLeaf(usize),
    SetNext(Vec<u8>),
    SetLeavesFrom(usize, Vec<u8>),
    Init(Vec<u8>),
    Atomic(usize, Vec<u8>, Vec<u8>),
    SeqAtomic(Vec<u8>, Vec<u8>),
    SetTree(usize),
    SetMeta(Vec<u8>),
    GetMeta,
    Flush,
    GetRoot,
    GetLeaf(usize),
    GetProof(usize),
    LeavesSet,
}
impl Call {
    fn to_json(&self) -> Value {
        match self {
            Call::SetLeaf(i, b) => json!({"c":"set_leaf","i":i,"b":hex(b)}),
            Call::DeleteLeaf(i) => json!({"c":"delete_leaf","i":i}),
            Call::SetNext(b) => json!({"c":"set_next_leaf","b":hex(b)}),
            Call::SetLeavesFrom(i, b) => json!({"c":"set_leaves_from","i":i,"b":hex(b)}),
            Call::Init(b) => json!({"c":"init_tree_with_leaves","b":hex(b)}),
            Call::Atomic(i, l, x) => json!({"c":"atomic_operation","i":i,"b":hex(l),"x":hex(x)}),
            Call::SeqAtomic(l, x) => json!({"c":"seq_atomic_operation","b":hex(l),"x":hex(x)}),
            Call::SetTree(h) => json!({"c":"set_tree","i":h}),
            Call::SetMeta(b) => json!({"c":"set_metadata","b":hex(b)}),
            Call::GetMeta => json!({"c":"get_metadata"}),
            Call::Flush => json!({"c":"flush"}),
            Call::GetRoot => json!({"c":"get_root"}),
            Call::GetLeaf(i) => json!({"c":"get_leaf","i":i}),
            Call::GetProof(i) => json!({"c":"get_proof","i":i}),
            Call::LeavesSet => json!({"c":"leaves_set"}),
        }
    }
    /// for messages: like `to_json`, payloads longer than 48 bytes abbreviated
    fn brief(&self) -> String {
        let t = self.to_json().to_string();
        if t.len() > 160 { format!("{}.. ({} characters)", &t[..120], t.len()) } else { t }
    }
    fn from_json(v: &Value) -> Option<Call> {
        let i = || v["i"].as_u64().map(|x| x as usize);
        let b = || v["b"].as_str().map(unhex);
        let x = || v["x"].as_str().map(unhex);
        Some(match v["c"].as_str()? {
            "set_leaf" => Call::SetLeaf(i()?, b()?),
            "delete_leaf" => Call::DeleteLeaf(i()?),
            "set_next_leaf" => Call::SetNext(b()?),
            "set_leaves_from" => Call::SetLeavesFrom(i()?, b()?),
            "init_tree_with_leaves" => Call::Init(b()?),
            "atomic_operation" => Call::Atomic(i()?, b()?, x()?),
            "seq_atomic_operation" => Call::SeqAtomic(b()?, x()?),
            "set_tree" => Call::SetTree(i()?),
            "set_metadata" => Call::SetMeta(b()?),
            "get_metadata" => Call::GetMeta,
            "flush" => Call::Flush,
            "get_root" => Call::GetRoot,
            "get_leaf" => Call::GetLeaf(i()?),
            "get_proof" => Call::GetProof(i()?),
            "leaves_set" => Call::LeavesSet,
            _ => return None,
        })
    }
    fn name(&self) -> &'static str {
        match self {
            Call::SetLeaf(..) => "set_leaf", Call::DeleteLeaf(..) => "delete_leaf", Call::SetNext(..) => "set_next_leaf",
            Call::SetLeavesFrom(..) => "set_leaves_from", Call::Init(..) => "init_tree_with_leaves", Call::Atomic(..) => "atomic_operation",
            Call::SeqAtomic(..) => "seq_atomic_operation", Call::SetTree(..) => "set_tree", Call::SetMeta(..) => "set_metadata",
            Call::GetMeta => "get_metadata", Call::Flush => "flush", Call::GetRoot => "get_root", Call::GetLeaf(..) => "get_leaf",
            Call::GetProof(..) => "get_proof", Call::LeavesSet => "leaves_set",
        }
    }
}

#[derive(Clone, Debug, PartialEq, Eq)]
pub struct Out {
    pub ok: bool,
    pub bytes: Option<Vec<u8>>,
    pub n: Option<usize>,
}

fn rd(b: &[u8]) -> Cursor<Vec<u8>> {
    Cursor::new(b.to_vec())
}

/// the Rust API; Err = panic
fn call_rust(r: &mut RLN, c: &Call) -> Result<Out, String> {
    guard(|| {
        let flag = |x: color_eyre::Result<()>| Out { ok: x.is_ok(), bytes: None, n: None };
        let outp = |x: color_eyre::Result<()>, b: Cursor<Vec<u8>>| Out { ok: x.is_ok(), bytes: if x.is_ok() { Some(b.into_inner()) } else { None }, n: None };
        match c {
            Call::SetLeaf(i, b) => flag(r.set_leaf(*i, rd(b))),
            Call::DeleteLeaf(i) => flag(r.delete_leaf(*i)),
            Call::SetNext(b) => flag(r.set_next_leaf(rd(b))),
            Call::SetLeavesFrom(i, b) => flag(r.set_leaves_from(*i, rd(b))),
            Call::Init(b) => flag(r.init_tree_with_leaves(rd(b))),
            Call::Atomic(i, l, x) => flag(r.atomic_operation(*i, rd(l), rd(x))),
            Call::SeqAtomic(l, x) => {
                let n = r.leaves_set();
                flag(r.atomic_operation(n, rd(l), rd(x)))
            }
            Call::SetTree(h) => flag(r.set_tree(*h)),
            Call::SetMeta(b) => flag(r.set_metadata(b)),
            Call::GetMeta => { let mut o = Cursor::new(vec![]); let x = r.get_metadata(&mut o); outp(x, o) }
            Call::Flush => flag(r.flush()),
            Call::GetRoot => { let mut o = Cursor::new(vec![]); let x = r.get_root(&mut o); outp(x, o) }
            Call::GetLeaf(i) => { let mut o = Cursor::new(vec![]); let x = r.get_leaf(*i, &mut o); outp(x, o) }
            Call::GetProof(i) => { let mut o = Cursor::new(vec![]); let x = r.get_proof(*i, &mut o); outp(x, o) }
            Call::LeavesSet => Out { ok: true, bytes: None, n: Some(r.leaves_set()) },
        }
    })
}

fn buf(b: &[u8]) -> Buffer {
    Buffer { ptr: b.as_ptr(), len: b.len() }
}
/// reads an output buffer filled by the FFI; the sentinel tells whether it was written at all
/// what an output buffer holds before a call: a callee that reports success must have replaced it
static POISON: [u8; 5] = *b"STALE";
fn poisoned() -> Buffer {
    Buffer { ptr: POISON.as_ptr(), len: POISON.len() }
}
fn take(ok: bool, ob: &Buffer) -> Out {
    if !ok {
        return Out { ok: false, bytes: None, n: None };
    }
    if ob.ptr == POISON.as_ptr() {
        return Out { ok: true, bytes: Some(b"<success reported, output buffer left as it was>".to_vec()), n: None };
    }
    let bytes = if ob.len == 0 { vec![] } else if ob.ptr.is_null() { vec![0xEE] } else { unsafe { std::slice::from_raw_parts(ob.ptr, ob.len) }.to_vec() };
    Out { ok: true, bytes: Some(bytes), n: None }
}

/// the C surface
fn call_ffi(ctx: *mut RLN, c: &Call) -> Out {
    let flag = |ok: bool| Out { ok, bytes: None, n: None };
    let mut ob = poisoned();
    match c {
        Call::SetLeaf(i, b) => flag(ffi::set_leaf(ctx, *i, &buf(b))),
        Call::DeleteLeaf(i) => flag(ffi::delete_leaf(ctx, *i)),
        Call::SetNext(b) => flag(ffi::set_next_leaf(ctx, &buf(b))),
        Call::SetLeavesFrom(i, b) => flag(ffi::set_leaves_from(ctx, *i, &buf(b))),
        Call::Init(b) => flag(ffi::init_tree_with_leaves(ctx, &buf(b))),
        Call::Atomic(i, l, x) => flag(ffi::atomic_operation(ctx, *i, &buf(l), &buf(x))),
        Call::SeqAtomic(l, x) => flag(ffi::seq_atomic_operation(ctx, &buf(l), &buf(x))),
        Call::SetTree(h) => flag(ffi::set_tree(ctx, *h)),
        Call::SetMeta(b) => flag(ffi::set_metadata(ctx, &buf(b))),
        Call::GetMeta => { let ok = ffi::get_metadata(ctx, &mut ob); take(ok, &ob) }
        Call::Flush => flag(ffi::flush(ctx)),
        Call::GetRoot => { let ok = ffi::get_root(ctx, &mut ob); take(ok, &ob) }
        Call::GetLeaf(i) => { let ok = ffi::get_leaf(ctx, *i, &mut ob); take(ok, &ob) }
        Call::GetProof(i) => { let ok = ffi::get_proof(ctx, *i, &mut ob); take(ok, &ob) }
        Call::LeavesSet => Out { ok: true, bytes: None, n: Some(ffi::leaves_set(ctx)) },
    }
}

#[derive(Clone, Debug, PartialEq, Eq)]
struct State {
    root: Option<Vec<u8>>,
    leaves: Vec<Option<Vec<u8>>>,
    n: usize,
    meta: Option<Vec<u8>>,
}
fn state_rust(r: &mut RLN) -> Result<State, String> {
    let g = |r: &mut RLN, c: Call| call_rust(r, &c).map(|o| o.bytes);
    Ok(State { root: g(r, Call::GetRoot)?, leaves: (0..(1usize << H)).map(|i| g(r, Call::GetLeaf(i))).collect::<Result<_, _>>()?, n: call_rust(r, &Call::LeavesSet)?.n.unwrap_or(usize::MAX), meta: g(r, Call::GetMeta)? })
}
fn state_ffi(ctx: *mut RLN) -> State {
    State { root: call_ffi(ctx, &Call::GetRoot).bytes, leaves: (0..(1usize << H)).map(|i| call_ffi(ctx, &Call::GetLeaf(i)).bytes).collect(), n: call_ffi(ctx, &Call::LeavesSet).n.unwrap_or(usize::MAX), meta: call_ffi(ctx, &Call::GetMeta).bytes }
}

pub struct Pair {
    ctx: *mut RLN,
    b: RLN,
}
impl Pair {
    fn new(height: usize) -> Result<Pair, String> {
        let cfg = json!({}).to_string();
        let mut ctx: *mut RLN = std::ptr::null_mut();
        if !ffi::new(height, &buf(cfg.as_bytes()), &mut ctx) || ctx.is_null() {
            return Err("ffi::new failed".into());
        }
        let b = RLN::new(height, Cursor::new(cfg)).map_err(|e| e.to_string())?;
        Ok(Pair { ctx, b })
    }
}
impl Drop for Pair {
    fn drop(&mut self) {
        if !self.ctx.is_null() {
            unsafe { drop(Box::from_raw(self.ctx)) };
        }
    }
}

fn fr(v: u8) -> Vec<u8> {
    codec::fr(&val(v))
}
fn frs(vs: &[u8]) -> Vec<u8> {
    codec::vec_fr(&vs.iter().map(|v| val(*v)).collect::<Vec<_>>())
}

pub fn alphabet(thorough: bool) -> Vec<Call> {
    let mut v = vec![
        Call::SetLeaf(0, fr(1)), Call::SetLeaf(7, fr(2)), Call::SetLeaf(8, fr(1)),
        Call::DeleteLeaf(0), Call::DeleteLeaf(7), Call::DeleteLeaf(8),
        Call::SetNext(fr(1)), Call::SetNext(fr(2)),
        Call::SetLeavesFrom(0, frs(&[1, 2])), Call::SetLeavesFrom(6, frs(&[2, 1])), Call::SetLeavesFrom(7, frs(&[1, 2])), Call::SetLeavesFrom(2, frs(&[])),
        Call::SetLeavesFrom(1, vec![3, 0, 0, 0, 0, 0, 0, 0, 9, 9]), // count says 3, buffer holds 2 bytes
        Call::Init(frs(&[2, 1])), Call::Init(frs(&[1, 1, 1, 1, 1, 1, 1, 1, 1])),
        Call::Atomic(0, frs(&[1, 2]), codec::vec_u8(&[0, 1])), Call::Atomic(2, frs(&[2]), codec::vec_u8(&[])), Call::Atomic(0, frs(&[]), codec::vec_u8(&[0])),
        Call::Atomic(0, frs(&[]), codec::vec_u8(&[])), Call::Atomic(7, frs(&[1, 2]), codec::vec_u8(&[])), Call::Atomic(0, frs(&[]), codec::vec_u8(&[0, 2])),
        Call::SeqAtomic(frs(&[1]), codec::vec_u8(&[])), Call::SeqAtomic(frs(&[2, 1]), codec::vec_u8(&[])), Call::SeqAtomic(frs(&[]), codec::vec_u8(&[0])),
        Call::SetTree(H), Call::SetMeta(b"m".to_vec()), Call::SetMeta(vec![]), Call::SetMeta(vec![0u8; 300]),
        Call::GetMeta, Call::Flush, Call::GetRoot, Call::GetLeaf(0), Call::GetLeaf(8), Call::GetProof(0), Call::GetProof(7), Call::GetProof(8), Call::LeavesSet,
    ];
    if thorough {
        v.push(Call::SetLeaf(3, fr(0)));
        v.push(Call::SetLeavesFrom(3, frs(&[1, 2, 1])));
        v.push(Call::SeqAtomic(frs(&[1, 2]), codec::vec_u8(&[0])));
        v.push(Call::DeleteLeaf(3));
    }
    v
}

impl C11 {
    /// Runs one sequence on a pair reset through set_tree on both surfaces.
    /// Returns discrepancies and, if the Rust API panicked, the excluded call.
    fn sequence(&self, pair: &mut Pair, seq: &[Call]) -> (Vec<Discrepancy>, Option<String>) {
        let mut out = vec![];
        let case = json!({"kind":"sequence","calls": seq.iter().map(|c| c.to_json()).collect::<Vec<_>>()});
        let d = |key: String, detail: String| Discrepancy { key, case: case.clone(), detail };
        // reset
        let _ = call_rust(&mut pair.b, &Call::SetTree(H));
        let _ = call_ffi(pair.ctx, &Call::SetTree(H));
        for (k, c) in seq.iter().enumerate() {
            let pre = state_ffi(pair.ctx);
            let ob = match call_rust(&mut pair.b, c) {
                Ok(o) => o,
                Err(p) => {
                    // the Rust API itself panics on this call: not part of the lockstep domain
                    return (out, Some(format!("{} (after {} calls): {}", c.brief(), k, panic_site(&p))));
                }
            };
            let oa = call_ffi(pair.ctx, c);
            if oa.ok != ob.ok {
                out.push(d(format!("C11/{}/flag-differs", c.name()), format!("call {k} {}: FFI reports {} but the Rust API returned {}", c.brief(), oa.ok, if ob.ok { "Ok" } else { "Err" })));
            } else if oa.bytes != ob.bytes {
                out.push(d(format!("C11/{}/output-differs", c.name()), format!("call {k} {}: FFI buffer {:?} vs Rust output {:?}", c.brief(), oa.bytes.as_ref().map(|b| hex(&b[..b.len().min(40)])), ob.bytes.as_ref().map(|b| hex(&b[..b.len().min(40)])))));
            } else if oa.n != ob.n {
                out.push(d(format!("C11/{}/value-differs", c.name()), format!("call {k}: FFI {:?} vs Rust {:?}", oa.n, ob.n)));
            }
            let sa = state_ffi(pair.ctx);
            let sb = match state_rust(&mut pair.b) { Ok(s) => s, Err(p) => return (out, Some(format!("state read panicked: {p}"))) };
            if sa != sb {
                let what = if sa.root != sb.root { "root" } else if sa.leaves != sb.leaves { "leaves" } else if sa.n != sb.n { "leaf count" } else { "metadata" };
                out.push(d(format!("C11/{}/state-diverges", c.name()), format!("after call {k} {}: {what} differs between the FFI context and the Rust instance", c.brief())));
                break;
            }
            if !oa.ok && !matches!(c, Call::Init(_)) && sa != pre {
                out.push(d(format!("C11/{}/failed-call-changed-state", c.name()), format!("call {k} {} reported failure but the context changed", c.brief())));
            }
        }
        (out, None)
    }

    /// height-20 pair: proving, verification, recovery, key generation, hashing
    fn crypto(&self, q: bool) -> Result<(Vec<Discrepancy>, u64), String> {
        let mut out = vec![];
        let mut n = 0u64;
        let d0 = Req::default_req();
        let reqs: Vec<Req> = if q { vec![d0.clone(), Req { index: (1 << 20) - 1, signal: vec![], ..d0.clone() }] } else {
            vec![d0.clone(), Req { index: (1 << 20) - 1, signal: vec![], ..d0.clone() }, Req { index: 1 << 19, secret: p() - big(1), signal: vec![b'a'; 137], ..d0.clone() }, Req { limit: big(1), id: big(0), ext: big(0), ..d0.clone() }, Req { ctx: 1, ..d0.clone() }, Req { ctx: 3, index: 255, ..d0.clone() }]
        };
        let res = par_map(&reqs, ncpu(), |_, r| -> Result<(Vec<Discrepancy>, u64), String> {
            let mut out = vec![];
            let mut n = 0u64;
            let case = json!({"kind":"crypto","req": r.to_json()});
            let d = |key: &str, detail: String| Discrepancy { key: format!("C11/{key}"), case: case.clone(), detail };
            let mut pair = Pair::new(DEPTH)?;
            // identical trees on both sides: B through the Rust API, A through the FFI
            let s = setup_tree(&mut pair.b, r)?;
            let a_rln: &mut RLN = unsafe { &mut *pair.ctx };
            let _ = a_rln; // (A is only touched through ffi::* below)
            // replicate the tree context through the FFI
            let rate = codec::fr(&rate_commitment(&r.secret, &r.limit));
            let other = codec::fr(&dec("424242424242424242424242"));
            let nb = (r.index ^ 1) as usize;
            match r.ctx {
                1 => { ffi::set_leaf(pair.ctx, nb, &buf(&other)); }
                3 => { ffi::set_leaf(pair.ctx, nb, &buf(&other)); }
                _ => {}
            }
            ffi::set_leaf(pair.ctx, r.index as usize, &buf(&rate));
            if r.ctx == 3 { ffi::delete_leaf(pair.ctx, nb); }
            let mut ob = poisoned();
            let ok = ffi::get_root(pair.ctx, &mut ob);
            if take(ok, &ob).bytes != Some(codec::fr(&s.root)) {
                out.push(d("get_root/output-differs", "roots differ after the same set-up through both surfaces".into()));
                return Ok((out, n));
            }
            // generate through both, cross-verify
            let inp = r.prove_input();
            let ok = ffi::generate_rln_proof(pair.ctx, &buf(&inp), &mut ob);
            let ma = take(ok, &ob);
            let mb = match prove_via(&mut pair.b, r, &s, Entry::Tree, false) { PResult::Ok(m) => Some(m), _ => None };
            n += 1;
            let (ma, mb) = match (ma.bytes, mb) {
                (Some(a), Some(b)) => (a, b),
                (a, b) => { out.push(d("generate_rln_proof/flag-differs", format!("FFI produced {:?} bytes, Rust {:?}", a.map(|x| x.len()), b.map(|x| x.len())))); return Ok((out, n)); }
            };
            if ma.len() != 288 || ma[128..] != mb[128..] {
                out.push(d("generate_rln_proof/output-differs", format!("FFI message has {} bytes; public values equal: {}", ma.len(), ma.len() == 288 && ma[128..] == mb[128..])));
            }
            // witness-level entry points
            let w = witness_bytes(&s.ci);
            for (name, f) in [("generate_rln_proof_with_witness", ffi::generate_rln_proof_with_witness as extern "C" fn(*mut RLN, *const Buffer, *mut Buffer) -> bool), ("prove", ffi::prove as extern "C" fn(*mut RLN, *const Buffer, *mut Buffer) -> bool)] {
                let ok = f(pair.ctx, &buf(&w), &mut ob);
                let o = take(ok, &ob);
                let want_len = if name == "prove" { 128 } else { 288 };
                n += 1;
                match o.bytes {
                    Some(b) if b.len() == want_len => {
                        let mut m = b.clone();
                        if name == "prove" { m.extend(codec::proof_values(&ref_values(&s.ci))); }
                        if !v_raw(&pair.b, &m).accepted() {
                            out.push(d(&format!("{name}/output-differs"), "the message produced through the FFI is not accepted by the Rust verifier".into()));
                        }
                    }
                    other => out.push(d(&format!("{name}/flag-differs"), format!("FFI returned {:?} bytes for a valid witness", other.map(|b| b.len())))),
                }
                // a bad witness: both must refuse
                let ok = f(pair.ctx, &buf(&w[..w.len() - 1]), &mut ob);
                if ok { out.push(d(&format!("{name}/flag-differs"), "FFI reports success on a truncated witness".into())); }
            }
            // verdicts: every verifier on both messages x tamper set, both surfaces
            let mut tam: Vec<(String, Vec<u8>, Vec<u8>)> = vec![]; // (name, message, signal)
            for (who, m) in [("ffi-made", &ma), ("rust-made", &mb)] {
                tam.push((format!("{who}.untouched"), m.clone(), r.signal.clone()));
                let mut t = m.clone(); t[130] ^= 1; tam.push((format!("{who}.root-bit"), t, r.signal.clone()));
                let mut t = m.clone(); t[5] ^= 4; tam.push((format!("{who}.proof-bit"), t, r.signal.clone()));
                let mut t = m.clone(); t[128 + 96] ^= 1; tam.push((format!("{who}.y-bit"), t, r.signal.clone()));
                let mut sg = r.signal.clone(); sg.push(1); tam.push((format!("{who}.signal-extended"), m.clone(), sg));
            }
            // root buffers in the shapes a caller may plausibly hand over: plain concatenation (the documented one),
            // a length-prefixed vector encoding, partial trailing bytes
            let own = codec::fr(&s.root);
            let foreign = codec::fr(&big(12345));
            let roots_sets: Vec<(&str, Vec<u8>)> = vec![
                ("own", own.clone()), ("empty", vec![]), ("foreign", foreign.clone()), ("foreign+own", [foreign.clone(), own.clone()].concat()),
                ("length-prefixed[own]", codec::vec_fr(&[s.root.clone()])), ("length-prefixed[foreign,own]", codec::vec_fr(&[big(12345), s.root.clone()])),
                ("length-prefixed[foreign,foreign,own]", codec::vec_fr(&[big(12345), big(777), s.root.clone()])),
                ("own+8-trailing-bytes", [own.clone(), vec![1, 0, 0, 0, 0, 0, 0, 0]].concat()), ("8-leading-bytes+own", [vec![1, 0, 0, 0, 0, 0, 0, 0], own.clone()].concat()),
                ("31-bytes", own[..31].to_vec()), ("own+1-byte", [own.clone(), vec![7]].concat()),
            ];
            for (tn, m, sg) in &tam {
                let input = with_signal(m, sg);
                // the caller's verdict variable holds the OPPOSITE of what the Rust API says before each call: a callee
                // that reports success must have written it
                let opposite = |vb: &VResult| !matches!(vb, VResult::True);
                let vb = v_tree(&pair.b, &input);
                let mut verdict = opposite(&vb);
                let fa = ffi::verify_rln_proof(pair.ctx, &buf(&input), &mut verdict);
                n += 1;
                cmp_verdict(&mut out, &case, "verify_rln_proof", tn, fa, verdict, &vb);
                let vb = v_raw(&pair.b, m);
                verdict = opposite(&vb);
                let fa = ffi::verify(pair.ctx, &buf(m), &mut verdict);
                n += 1;
                cmp_verdict(&mut out, &case, "verify", tn, fa, verdict, &vb);
                for (rn, rs) in &roots_sets {
                    let vb = v_roots(&pair.b, &input, rs);
                    verdict = opposite(&vb);
                    let fa = ffi::verify_with_roots(pair.ctx, &buf(&input), &buf(rs), &mut verdict);
                    n += 1;
                    cmp_verdict(&mut out, &case, "verify_with_roots", &format!("{tn}.{rn}"), fa, verdict, &vb);
                }
            }
            // a short buffer: both must report failure
            let mut verdict = true;
            let fa = ffi::verify_rln_proof(pair.ctx, &buf(&ma[..100]), &mut verdict);
            cmp_verdict(&mut out, &case, "verify_rln_proof", "short-buffer", fa, verdict, &v_tree(&pair.b, &ma[..100]));
            // recovery
            let mut r2 = r.clone();
            r2.signal = b"another".to_vec();
            if let PResult::Ok(m2) = prove_via(&mut pair.b, &r2, &s, Entry::Tree, false) {
                // (the output buffer is NOT reset between these calls: after a recovery that wrote a secret, a recovery
                // across epochs must replace it by an empty output)
                let mut r3 = r.clone();
                r3.ext = &r.ext + big(1);
                r3.signal = b"third".to_vec();
                let m3 = match prove_via(&mut pair.b, &r3, &s, Entry::Tree, false) { PResult::Ok(m) => m, _ => ma.clone() };
                for (x, y, nm) in [(&ma, &m2, "two-signals"), (&ma, &m3, "different-epochs"), (&ma, &m2, "two-signals-again"), (&ma, &ma, "same-message"), (&ma[..200].to_vec(), &m2, "short-first")] {
                    let ok = ffi::recover_id_secret(pair.ctx, &buf(x), &buf(y), &mut ob);
                    let oa = take(ok, &ob);
                    let rb = guard(|| { let mut o = Cursor::new(vec![]); pair.b.recover_id_secret(rd(x), rd(y), &mut o).map(|_| o.into_inner()) });
                    n += 1;
                    match rb {
                        Ok(Ok(bytes)) => if !oa.ok || oa.bytes.as_deref() != Some(&bytes[..]) { out.push(d("recover_id_secret/output-differs", format!("{nm}: FFI {:?} vs Rust Ok({} bytes)", oa.bytes.map(|b| b.len()), bytes.len()))); },
                        Ok(Err(_)) => if oa.ok { out.push(d("recover_id_secret/flag-differs", format!("{nm}: FFI reports success, Rust returns Err"))); },
                        Err(_) => {}
                    }
                }
            }
            // key generation and hashing
            for seed in [b"".to_vec(), b"seed".to_vec(), vec![7u8; 137]] {
                for ext in [false, true] {
                    let ok = if ext { ffi::seeded_extended_key_gen(pair.ctx, &buf(&seed), &mut ob) } else { ffi::seeded_key_gen(pair.ctx, &buf(&seed), &mut ob) };
                    let oa = take(ok, &ob);
                    let mut o = Cursor::new(vec![]);
                    let rb = if ext { pair.b.seeded_extended_key_gen(rd(&seed), &mut o) } else { pair.b.seeded_key_gen(rd(&seed), &mut o) };
                    n += 1;
                    if oa.ok != rb.is_ok() || oa.bytes.as_deref() != Some(&o.get_ref()[..]) {
                        out.push(d("seeded_key_gen/output-differs", format!("seed of {} bytes, extended {ext}", seed.len())));
                    }
                }
                let ok = ffi::hash(&buf(&seed), &mut ob);
                let oa = take(ok, &ob);
                let mut o = Cursor::new(vec![]);
                let rb = rln::public::hash(rd(&seed), &mut o);
                n += 1;
                if oa.ok != rb.is_ok() || oa.bytes.as_deref() != Some(&o.get_ref()[..]) {
                    out.push(d("hash/output-differs", format!("input of {} bytes", seed.len())));
                }
            }
            for inp in [codec::vec_fr(&[big(1)]), codec::vec_fr(&[big(1), p() - big(1)]), codec::vec_fr(&(1..=8u64).map(big).collect::<Vec<_>>()), vec![2, 0, 0, 0, 0, 0, 0, 0, 1]] {
                let ok = ffi::poseidon_hash(&buf(&inp), &mut ob);
                let oa = take(ok, &ob);
                let rb = guard(|| { let mut o = Cursor::new(vec![]); rln::public::poseidon_hash(rd(&inp), &mut o).map(|_| o.into_inner()) });
                n += 1;
                match rb {
                    Ok(Ok(b)) => if oa.bytes.as_deref() != Some(&b[..]) { out.push(d("poseidon_hash/output-differs", format!("input of {} bytes", inp.len()))); },
                    Ok(Err(_)) => if oa.ok { out.push(d("poseidon_hash/flag-differs", "FFI reports success, Rust Err".into())); },
                    Err(_) => {}
                }
            }
            for ext in [false, true] {
                let ok = if ext { ffi::extended_key_gen(pair.ctx, &mut ob) } else { ffi::key_gen(pair.ctx, &mut ob) };
                let oa = take(ok, &ob);
                n += 1;
                if oa.bytes.as_ref().map(|b| b.len()) != Some(if ext { 128 } else { 64 }) {
                    out.push(d("key_gen/output-differs", format!("extended {ext}: {:?} bytes", oa.bytes.map(|b| b.len()))));
                }
            }
            Ok((out, n))
        });
        for r in res {
            let (o, k) = r?;
            out.extend(o);
            n += k;
        }
        // construction from caller-supplied resources: both surfaces must agree on success and on the instance they build
        {
            let case = json!({"kind":"crypto","req": d0.to_json(), "what": "new_with_params"});
            let zkey = rln::circuit::ZKEY_BYTES.to_vec();
            let graph = rln::circuit::graph_from_folder().to_vec();
            let cfgs: Vec<(&str, Vec<u8>, Vec<u8>, Vec<u8>, usize)> = vec![
                ("bundled resources", zkey.clone(), graph.clone(), b"{}".to_vec(), 20),
                ("bundled resources, height 3", zkey.clone(), graph.clone(), Vec::new(), 3),
                ("empty key", vec![], graph.clone(), b"{}".to_vec(), 20),
                ("malformed tree configuration", zkey.clone(), graph.clone(), b"{not json".to_vec(), 20),
            ];
            for (name, z, g, c, h) in cfgs {
                let rb = guard(|| RLN::new_with_params(h, z.clone(), g.clone(), Cursor::new(c.clone())));
                let rb = match rb { Ok(r) => r, Err(_) => continue }; // a panic of the Rust constructor is outside the lockstep domain
                let mut ctx: *mut RLN = std::ptr::null_mut();
                let fa = ffi::new_with_params(h, &buf(&z), &buf(&g), &buf(&c), &mut ctx);
                n += 1;
                if fa != rb.is_ok() {
                    out.push(Discrepancy { key: "C11/new_with_params/flag-differs".into(), case: case.clone(), detail: format!("{name}: FFI reports {fa}, the Rust constructor {}", if rb.is_ok() { "Ok" } else { "Err" }) });
                }
                if fa && !ctx.is_null() {
                    if let Ok(b) = rb {
                        let mut ob = poisoned();
                        let ok = ffi::get_root(ctx, &mut ob);
                        let mut o = Cursor::new(vec![]);
                        let _ = b.get_root(&mut o);
                        if take(ok, &ob).bytes.as_deref() != Some(&o.get_ref()[..]) {
                            out.push(Discrepancy { key: "C11/new_with_params/output-differs".into(), case: case.clone(), detail: format!("{name}: the two instances have different empty-tree roots") });
                        }
                    }
                    unsafe { drop(Box::from_raw(ctx)) };
                }
            }
        }
        // construction from a tree configuration: valid (persistent location), malformed JSON, unknown fields
        {
            let case = json!({"kind":"crypto","req": d0.to_json(), "what": "new"});
            let dir = super::tree::scratch_dir("c11cfg");
            let cfgs: Vec<(&str, String, String)> = vec![
                ("empty object", "{}".into(), "{}".into()),
                ("persistent location", json!({"tree_config": {"path": dir.join("a").to_str().unwrap(), "temporary": false, "cache_capacity": 1048576, "mode": "LowSpace"}}).to_string(), json!({"tree_config": {"path": dir.join("b").to_str().unwrap(), "temporary": false, "cache_capacity": 1048576, "mode": "LowSpace"}}).to_string()),
                ("malformed json", "{\"tree_config\": ".into(), "{\"tree_config\": ".into()),
                ("unknown fields", json!({"tree_config": {"foo": 1}, "bar": [1, 2]}).to_string(), json!({"tree_config": {"foo": 1}, "bar": [1, 2]}).to_string()),
                ("not utf-8", String::from_utf8_lossy(&[0xff, 0xfe]).to_string(), String::from_utf8_lossy(&[0xff, 0xfe]).to_string()),
            ];
            for (name, ca, cb) in cfgs {
                let rb = guard(|| RLN::new(H, Cursor::new(cb.clone())));
                let rb = match rb { Ok(r) => r, Err(_) => continue };
                let mut ctx: *mut RLN = std::ptr::null_mut();
                let fa = ffi::new(H, &buf(ca.as_bytes()), &mut ctx);
                n += 1;
                if fa != rb.is_ok() {
                    out.push(Discrepancy { key: "C11/new/flag-differs".into(), case: case.clone(), detail: format!("{name}: FFI reports {fa}, RLN::new {}", if rb.is_ok() { "Ok" } else { "Err" }) });
                }
                if fa && !ctx.is_null() {
                    if let Ok(mut b) = rb {
                        // one mutation and the state read back through each surface
                        let oa = call_ffi(ctx, &Call::SetNext(fr(1)));
                        let ob = call_rust(&mut b, &Call::SetNext(fr(1)));
                        if Ok(oa) != ob || Ok(state_ffi(ctx)) != state_rust(&mut b) {
                            out.push(Discrepancy { key: "C11/new/state-diverges".into(), case: case.clone(), detail: format!("{name}: the two freshly built instances diverge after one append") });
                        }
                    }
                    unsafe { drop(Box::from_raw(ctx)) };
                }
            }
            let _ = std::fs::remove_dir_all(&dir);
        }
        Ok((out, n))
    }
}

fn cmp_verdict(out: &mut Vec<Discrepancy>, case: &Value, f: &str, tn: &str, flag: bool, verdict: bool, vb: &VResult) {
    let same = match vb {
        VResult::True => flag && verdict,
        VResult::False => flag && !verdict,
        VResult::Err(_) => !flag,
        VResult::Panic(_) => true,
    };
    if !same {
        out.push(Discrepancy { key: format!("C11/{f}/verdict-differs"), case: case.clone(), detail: format!("{tn}: FFI (success {flag}, verdict {verdict}) vs Rust {}", vb.short()) });
    }
}

thread_local! {
    static TL_PAIR: std::cell::RefCell<Option<Pair>> = const { std::cell::RefCell::new(None) };
}
fn with_pair<R>(f: impl FnOnce(&mut Pair) -> R) -> Result<R, String> {
    TL_PAIR.with(|c| {
        let mut g = c.borrow_mut();
        if g.is_none() {
            *g = Some(Pair::new(H)?);
        }
        Ok(f(g.as_mut().unwrap()))
    })
}

impl Prop for C11 {
    fn id(&self) -> &'static str { "C11" }
    fn level(&self) -> &'static str { "model_checking" }
    fn run_case(&self, case: &Value) -> Vec<Discrepancy> {
        match case["kind"].as_str().unwrap_or("") {
            "sequence" => {
                let seq: Vec<Call> = case["calls"].as_array().map(|a| a.iter().filter_map(Call::from_json).collect()).unwrap_or_default();
                match Pair::new(H) { Ok(mut p) => self.sequence(&mut p, &seq).0, Err(_) => vec![] }
            }
            "crypto" => self.crypto(true).map(|x| x.0).unwrap_or_default(),
            _ => vec![],
        }
    }
    fn explore(&self, ctx: &Ctx, findings: &Findings, ev: &mut Evidence) -> Result<(), String> {
        let q = ctx.tier == Tier::Quick;
        let a = alphabet(!q);
        let maxlen = if q { 2 } else { 3 };
        // all sequences up to maxlen, grouped by first call so that each work item is a batch
        let mut seqs: Vec<Vec<Call>> = a.iter().map(|c| vec![c.clone()]).collect();
        let mut cur = seqs.clone();
        for _ in 1..maxlen {
            let mut next = vec![];
            for s in &cur {
                for c in &a {
                    let mut n = s.clone();
                    n.push(c.clone());
                    next.push(n);
                }
            }
            seqs.extend(next.iter().cloned());
            cur = next;
        }
        // payload sizes: metadata of 255 .. 2^20 bytes stored and read back through both surfaces
        for n in [255usize, 256, 257, 4095, 4096, 4097, 65_535, 65_536, 65_537, 1 << 20] {
            let big_meta: Vec<u8> = (0..n).map(|k| (k % 251) as u8).collect();
            seqs.push(vec![Call::SetMeta(big_meta), Call::GetMeta, Call::SetMeta(b"m".to_vec()), Call::GetMeta]);
        }
        let chunks: Vec<&[Vec<Call>]> = seqs.chunks(64).collect();
        let res = par_map(&chunks, ncpu(), |_, ch| -> Result<(Vec<Discrepancy>, Vec<String>, u64, std::collections::BTreeSet<String>), String> {
            let mut out = vec![];
            let mut excl = vec![];
            let mut calls = 0u64;
            let mut states = std::collections::BTreeSet::new();
            for s in ch.iter() {
                let (o, e) = with_pair(|p| {
                    let r = self.sequence(p, s);
                    let st = state_ffi(p.ctx);
                    (r, st)
                }).map(|((o, e), st)| { states.insert(format!("{:?}", st)); (o, e) })?;
                calls += s.len() as u64;
                out.extend(o);
                if let Some(e) = e {
                    excl.push(e);
                    // the instance that panicked is not trusted any more
                    TL_PAIR.with(|c| *c.borrow_mut() = None);
                }
            }
            Ok((out, excl, calls, states))
        });
        let mut excluded = std::collections::BTreeSet::new();
        let mut transitions = 0u64;
        let mut states = std::collections::BTreeSet::new();
        for r in res {
            let (o, e, c, st) = r?;
            findings.report_all(o);
            transitions += c;
            states.extend(st);
            for x in e {
                excluded.insert(x.split(" (after").next().unwrap_or("").to_string());
            }
        }
        let (o, ncrypto) = self.crypto(q)?;
        findings.report_all(o);
        ev.set("states", json!(states.len().max(1)));
        ev.set("transitions", json!(transitions));
        ev.set("traces_validated_against_impl", json!(seqs.len()));
        ev.set("max_depth", json!(maxlen));
        ev.set("alphabet_size", json!(a.len()));
        ev.set("sequences", json!(seqs.len()));
        ev.set("crypto_call_comparisons", json!(ncrypto));
        ev.set("excluded_because_the_rust_api_panics", json!(excluded));
        ev.set("exhaustive", json!(true));
        ev.set("evaluations", json!(seqs.len() as u64 + ncrypto));
        ev.set("distinct_nontrivial", json!(seqs.len()));
        ev.set("rule", json!("every sequence of length <= L (2 quick / 3 thorough) over the call alphabet (tree mutators with in-range and failing arguments, batch calls incl. the sequential wrapper, metadata, flush, getters) is executed in lockstep on an FFI context and a Rust instance, both reset through set_tree; after each call: success flag = is_ok(), output buffer = bytes written by the Rust API, leaf count equal, then the full state (root, 8 leaves, leaf count, metadata) read through each surface; a failed call (other than init_tree_with_leaves, which resets first in both surfaces) leaves the state unchanged; on a height-20 pair: generate_rln_proof / with_witness / prove, the three verifiers on FFI-made and Rust-made messages x 5 alterations x 4 root sets, recovery, seeded/unseeded key generation, hash, poseidon_hash; states = distinct final context states observed"));
        ev.sample(json!(seqs[0].iter().map(|c| c.to_json()).collect::<Vec<_>>()));
        ev.sample(json!(seqs[seqs.len() / 2].iter().map(|c| c.to_json()).collect::<Vec<_>>()));
        ev.sample(json!(seqs[seqs.len() - 1].iter().map(|c| c.to_json()).collect::<Vec<_>>()));
        ev.assume("calls on which the Rust API itself panics are outside the lockstep domain (listed in excluded_because_the_rust_api_panics); they are C08/C12/C13 subjects");
        ev.assume("proof bytes are randomised: generate_* outputs are compared by cross-verification and by equality of the public values");
        Ok(())
    }
}
