//! E1 — tree-machine explorer: explicit-state breadth-first search over operation histories.
//! Every transition is executed on the real backends and compared with the ideal hash tree.
//! Serves C06 (observational equality), C07 (membership proofs), C08 (batch updates),
//! C15 (empty-position list).
use super::*;
use crate::refmodel::codec;
use crate::refmodel::field::*;
use crate::refmodel::tree::{fold_path, IdealTree};
use rln::hashers::PoseidonHash;
use rln::pm_tree_adapter::{PmTree, PmTreeProof, PmtreeConfig};
use rln::public::RLN;
use serde_json::json;
use std::collections::{BTreeMap, BTreeSet, HashMap};
use std::io::Cursor;
use std::path::PathBuf;
use std::str::FromStr;
use std::sync::atomic::{AtomicU64, Ordering};
use zerokit_utils::{
    FullMerkleBranch, FullMerkleProof, FullMerkleTree, OptimalMerkleProof, OptimalMerkleTree, ZerokitMerkleProof,
    ZerokitMerkleTree,
};

// ------------------------------------------------------------------------------------------
// operations
// ------------------------------------------------------------------------------------------

#[derive(Clone, Debug, PartialEq, Eq, Hash, PartialOrd, Ord)]
pub enum TreeOp {
    Set(u64, u8),
    Delete(u64),
    Append(u8),
    Range(u64, Vec<u8>),
    Batch(u64, Vec<u8>, Vec<u64>),
    /// batch initialisation (RLN::init_tree_with_leaves); on the trait backends: fresh tree + batch at 0
    Init(Vec<u8>),
    Reset,
    ComputeRoot,
    Reopen,
    /// close, then create a tree of ANOTHER depth at the same persistent location
    Recreate(u64),
    /// flush (close_db_connection) and carry on with the same instance
    Flush,
    /// drop the instance WITHOUT a flush of its own and open the location again (no crash: the storage engine
    /// writes everything back when its handle is dropped)
    DropReopen,
}

/// value codes: 0 = default leaf, 1 = a, 2 = b, 3 = c (only used as "a different value")
pub fn val(code: u8) -> BigUint {
    match code {
        0 => big(0),
        1 => big(7),
        2 => p() - big(1),
        3 => pow2(200) + big(5),
        // leaf values that coincide with the value of an empty subtree of height 1 / 2 (what a sparse
        // representation treats as "nothing stored")
        4 => crate::refmodel::poseidon::hash2(&big(0), &big(0)),
        5 => { let e = crate::refmodel::poseidon::hash2(&big(0), &big(0)); crate::refmodel::poseidon::hash2(&e, &e) }
        n => big(1000 + n as u64),
    }
}

impl TreeOp {
    pub fn to_json(&self) -> Value {
        match self {
            TreeOp::Set(i, v) => json!({"op":"Set","i":i,"v":v}),
            TreeOp::Delete(i) => json!({"op":"Delete","i":i}),
            TreeOp::Append(v) => json!({"op":"Append","v":v}),
            TreeOp::Range(s, vs) => json!({"op":"Range","start":s,"values":vs}),
            TreeOp::Batch(s, vs, r) => json!({"op":"Batch","start":s,"values":vs,"remove":r}),
            TreeOp::Init(vs) => json!({"op":"Init","values":vs}),
            TreeOp::Reset => json!({"op":"Reset"}),
            TreeOp::ComputeRoot => json!({"op":"ComputeRoot"}),
            TreeOp::Reopen => json!({"op":"Reopen"}),
            TreeOp::Recreate(d) => json!({"op":"Recreate","depth":d}),
            TreeOp::Flush => json!({"op":"Flush"}),
            TreeOp::DropReopen => json!({"op":"DropReopen"}),
        }
    }
    pub fn from_json(v: &Value) -> Option<TreeOp> {
        let u = |k: &str| v[k].as_u64();
        let vs = |k: &str| v[k].as_array().map(|a| a.iter().map(|x| x.as_u64().unwrap_or(0) as u8).collect::<Vec<u8>>());
        Some(match v["op"].as_str()? {
            "Set" => TreeOp::Set(u("i")?, u("v")? as u8),
            "Delete" => TreeOp::Delete(u("i")?),
            "Append" => TreeOp::Append(u("v")? as u8),
            "Range" => TreeOp::Range(u("start")?, vs("values")?),
            "Batch" => TreeOp::Batch(
                u("start")?,
                vs("values")?,
                v["remove"].as_array()?.iter().map(|x| x.as_u64().unwrap_or(0)).collect(),
            ),
            "Init" => TreeOp::Init(vs("values")?),
            "Reset" => TreeOp::Reset,
            "ComputeRoot" => TreeOp::ComputeRoot,
            "Reopen" => TreeOp::Reopen,
            "Recreate" => TreeOp::Recreate(u("depth")?),
            "Flush" => TreeOp::Flush,
            "DropReopen" => TreeOp::DropReopen,
            _ => return None,
        })
    }
    /// like `to_json`, with long value / removal lists abbreviated (for messages; cases keep the full form)
    pub fn brief(&self) -> Value {
        let short = |v: &Vec<u8>| if v.len() > 12 { json!(format!("{:?}.. ({} values)", &v[..4], v.len())) } else { json!(v) };
        let shortr = |v: &Vec<u64>| if v.len() > 12 { json!(format!("{:?}.. ({} positions, last {})", &v[..3], v.len(), v[v.len() - 1])) } else { json!(v) };
        match self {
            TreeOp::Range(s, vs) => json!({"op":"Range","start":s,"values":short(vs)}),
            TreeOp::Batch(s, vs, r) => json!({"op":"Batch","start":s,"values":short(vs),"remove":shortr(r)}),
            TreeOp::Init(vs) => json!({"op":"Init","values":short(vs)}),
            _ => self.to_json(),
        }
    }
    pub fn is_batch(&self) -> bool {
        matches!(self, TreeOp::Batch(..) | TreeOp::Init(..))
    }
}

pub fn hist_json(h: &[TreeOp]) -> Value {
    Value::Array(h.iter().map(|o| o.to_json()).collect())
}

// ------------------------------------------------------------------------------------------
// the model step: what the ideal tree allows
// ------------------------------------------------------------------------------------------

pub struct Expect {
    pub ok: Option<IdealTree>,
    /// states allowed when the call reports an error (empty = an error is not acceptable)
    pub err: Vec<IdealTree>,
}

pub fn model_step(t: &IdealTree, op: &TreeOp) -> Expect {
    let cap = t.cap();
    let same = || t.clone();
    match op {
        TreeOp::Set(i, v) => {
            if *i < cap {
                let mut n = t.clone();
                n.set(*i, &val(*v));
                Expect { ok: Some(n), err: vec![] }
            } else {
                Expect { ok: Some(same()), err: vec![same()] }
            }
        }
        TreeOp::Delete(i) => {
            if *i < t.hwm {
                let mut n = t.clone();
                n.remove(*i);
                Expect { ok: Some(n), err: vec![] }
            } else {
                Expect { ok: Some(same()), err: vec![same()] }
            }
        }
        TreeOp::Append(v) => {
            if t.hwm < cap {
                let mut n = t.clone();
                n.set(t.hwm, &val(*v));
                Expect { ok: Some(n), err: vec![] }
            } else {
                Expect { ok: Some(same()), err: vec![same()] }
            }
        }
        TreeOp::Range(s, vs) => {
            let n = vs.len() as u64;
            if n == 0 {
                // nothing to write: success or "nothing to do", the state is unchanged either way
                Expect { ok: Some(same()), err: vec![same()] }
            } else if s.checked_add(n).map(|e| e <= cap).unwrap_or(false) {
                let mut m = t.clone();
                for (k, v) in vs.iter().enumerate() {
                    m.set(s + k as u64, &val(*v));
                }
                Expect { ok: Some(m), err: vec![] }
            } else {
                Expect { ok: Some(same()), err: vec![same()] }
            }
        }
        TreeOp::Batch(s, vs, rem) => {
            let n = vs.len() as u64;
            let fits = s.checked_add(n).map(|e| e <= cap).unwrap_or(false);
            let rem_ok = rem.iter().all(|r| *r < cap);
            let nothing = vs.is_empty() && rem.is_empty();
            let apply = |t: &IdealTree| {
                let mut m = t.clone();
                let hwm0 = m.hwm;
                for r in rem.iter() {
                    if *r < hwm0 {
                        m.remove(*r);
                    }
                }
                for (k, v) in vs.iter().enumerate() {
                    m.set(s + k as u64, &val(*v));
                }
                m
            };
            // removing only positions that were never set is "nothing to do" as well
            let nothing = nothing || (vs.is_empty() && rem.iter().all(|r| *r >= t.hwm && *r < cap));
            if nothing {
                Expect { ok: Some(same()), err: vec![same()] }
            } else if vs.is_empty() && !fits && rem_ok {
                // no leaves to write and a start position beyond capacity: the (empty) range is either
                // rejected or ignored; the text does not say which
                Expect { ok: Some(apply(t)), err: vec![same()] }
            } else if fits && rem_ok {
                Expect { ok: Some(apply(t)), err: vec![] }
            } else if fits {
                // a removal index beyond capacity: reject and change nothing, or ignore that index
                Expect { ok: Some(apply(t)), err: vec![same()] }
            } else {
                Expect { ok: Some(same()), err: vec![same()] }
            }
        }
        TreeOp::Init(vs) => {
            let fresh = IdealTree::new(t.depth);
            if vs.len() as u64 <= cap && !vs.is_empty() {
                let mut m = fresh;
                for (k, v) in vs.iter().enumerate() {
                    m.set(k as u64, &val(*v));
                }
                Expect { ok: Some(m), err: vec![] }
            } else if vs.is_empty() {
                Expect { ok: Some(fresh.clone()), err: vec![same(), fresh] }
            } else {
                Expect { ok: None, err: vec![same(), fresh] }
            }
        }
        TreeOp::Reset => Expect { ok: Some(IdealTree::new(t.depth)), err: vec![] },
        TreeOp::ComputeRoot | TreeOp::Reopen | TreeOp::Flush | TreeOp::DropReopen => Expect { ok: Some(same()), err: vec![] },
        // What creating a tree of another depth over an existing location should do is not pinned by any
        // property: refusing, or handing back the stored tree, keeps the model state; an implementation
        // that really starts a fresh tree of the requested depth is judged separately (see `judge`)
        TreeOp::Recreate(_) => Expect { ok: Some(same()), err: vec![same()] },
    }
}

/// operation shape class (part of a finding key; computed from the pre-state and the operation)
pub fn shape(pre: &IdealTree, op: &TreeOp) -> String {
    let cap = pre.cap();
    let ncls = |n: usize| match n {
        0 => "n0",
        1 => "n1",
        _ => "n2plus",
    };
    match op {
        TreeOp::Set(i, _) => if *i < cap { "set.inrange".into() } else { "set.beyond".into() },
        TreeOp::Delete(i) => {
            if *i >= cap { "delete.ge-cap".into() } else if *i >= pre.hwm { "delete.ge-hwm".into() } else if pre.is_written(*i) { "delete.written".into() } else { "delete.unwritten".into() }
        }
        TreeOp::Append(_) => if pre.hwm < cap { "append.room".into() } else { "append.full".into() },
        TreeOp::Range(s, vs) => {
            let fit = if s.checked_add(vs.len() as u64).map(|e| e <= cap).unwrap_or(false) { "fits" } else { "beyond" };
            let sc = if *s == 0 { "s0" } else if s % 2 == 1 { "sodd" } else { "seven" };
            format!("range.{}.{}.{}", ncls(vs.len()), sc, fit)
        }
        TreeOp::Batch(s, vs, rem) => {
            let end = s.saturating_add(vs.len() as u64);
            let fit = if s.checked_add(vs.len() as u64).map(|e| e <= cap).unwrap_or(false) { "fits" } else { "beyond" };
            let rel = if rem.is_empty() {
                "Rnone".to_string()
            } else if rem.iter().any(|r| *r >= cap) {
                "Roob".into()
            } else {
                let before = rem.iter().any(|r| r < s);
                let inside = rem.iter().any(|r| r >= s && *r < end);
                let after = rem.iter().any(|r| *r >= end);
                // a position named twice counts once for the shape; ".dup" marks that the list had repeats
                let mut sorted = rem.clone();
                sorted.sort();
                sorted.dedup();
                let dup = sorted.len() != rem.len();
                let contiguous = sorted.windows(2).all(|w| w[1] == w[0] + 1);
                format!("R{}{}{}{}{}", if before { "b" } else { "" }, if inside { "i" } else { "" }, if after { "a" } else { "" }, if contiguous { "" } else { ".gaps" }, if dup { ".dup" } else { "" })
            };
            format!("batch.{}.{}.{}", ncls(vs.len()), rel, fit)
        }
        TreeOp::Init(vs) => format!("init.{}.{}", ncls(vs.len()), if vs.len() as u64 <= cap { "fits" } else { "beyond" }),
        TreeOp::Reset => "reset".into(),
        TreeOp::ComputeRoot => "compute_root".into(),
        TreeOp::Reopen => {
            // a position explicitly written with the default value is indistinguishable, in storage,
            // from a removed one
            if (0..pre.hwm).any(|i| pre.is_written(i) && pre.leaf(i) == big(0)) { "reopen.default-valued-write-present".into() } else { "reopen".into() }
        }
        TreeOp::Flush => "flush".into(),
        TreeOp::DropReopen => {
            if (0..pre.hwm).any(|i| pre.is_written(i) && pre.leaf(i) == big(0)) { "reopen.default-valued-write-present".into() } else { "drop-reopen".into() }
        }
        TreeOp::Recreate(d) => {
            let dv = if (0..pre.hwm).any(|i| pre.is_written(i) && pre.leaf(i) == big(0)) { ".default-valued-write-present" } else { "" };
            format!("recreate.{}{}", if (*d as usize) > pre.depth { "deeper" } else if (*d as usize) < pre.depth { "shallower" } else { "same-depth" }, dv)
        }
    }
}

// ------------------------------------------------------------------------------------------
// observations
// ------------------------------------------------------------------------------------------

#[derive(Clone, Debug, PartialEq, Eq)]
pub struct ProofObs {
    pub elems: Vec<BigUint>,
    pub bits: Vec<u8>,
    pub leaf_index: Option<u64>,
    pub length: Option<usize>,
    /// root recomputed from the stored leaf by the proof object
    pub recomputed: Option<BigUint>,
    /// result of the tree's own check on (stored leaf, proof): Some(true) accepted
    pub accepted: Option<bool>,
}

#[derive(Clone, Debug, PartialEq, Eq, Default)]
pub struct Obs {
    pub root: BigUint,
    pub leaves: Vec<BigUint>,
    pub oob_get_is_err: bool,
    pub hwm: u64,
    /// subtree[level][node]: node value at `level` (0 = root) queried through the leaf-index API
    pub subtree: Vec<Vec<BigUint>>,
    pub empty: Vec<u64>,
    pub proofs: Vec<ProofObs>,
    /// positions observed (all of 0..cap for small depths; the position alphabet for depth 20)
    pub positions: Vec<u64>,
}

pub fn model_obs(t: &IdealTree, positions: &[u64], full: bool) -> Obs {
    let d = t.depth;
    let dh = crate::refmodel::tree::default_hashes(d);
    let mut cache = std::collections::HashMap::new();
    let mut o = Obs { root: t.node_cached(0, 0, &dh, &mut cache), hwm: t.hwm, oob_get_is_err: true, positions: positions.to_vec(), ..Default::default() };
    o.leaves = positions.iter().map(|i| t.leaf(*i)).collect();
    if full {
        for l in 0..=d {
            o.subtree.push((0..(1u64 << l)).map(|k| t.node_cached(l, k, &dh, &mut cache)).collect());
        }
    } else {
        // sparse: for each position its ancestor at every level
        for l in 0..=d {
            o.subtree.push(positions.iter().map(|i| t.node_cached(l, i >> (d - l), &dh, &mut cache)).collect());
        }
    }
    o.empty = t.empty_indices();
    for i in positions {
        let (s, b) = {
            let mut sib = vec![];
            let mut bits = vec![];
            let mut idx = *i;
            for level in (1..=d).rev() {
                sib.push(t.node_cached(level, idx ^ 1, &dh, &mut cache));
                bits.push((idx & 1) as u8);
                idx >>= 1;
            }
            (sib, bits)
        };
        o.proofs.push(ProofObs { elems: s, bits: b, leaf_index: Some(*i), length: Some(d), recomputed: Some(o.root.clone()), accepted: Some(true) });
    }
    o
}

#[derive(Clone, Debug, PartialEq, Eq)]
pub enum Outcome {
    Ok,
    Err(String),
    Panic(String),
    /// the operation does not exist on this surface
    NotApplicable,
}

// ------------------------------------------------------------------------------------------
// backends
// ------------------------------------------------------------------------------------------

#[derive(Clone, Copy, Debug, PartialEq, Eq, Hash, PartialOrd, Ord)]
pub enum Kind {
    Full,
    Optimal,
    Pm,
    Rln,
}
impl Kind {
    pub fn name(&self) -> &'static str {
        match self {
            Kind::Full => "full",
            Kind::Optimal => "optimal",
            Kind::Pm => "pmtree",
            Kind::Rln => "rlnapi",
        }
    }
    pub fn from_name(s: &str) -> Option<Kind> {
        Some(match s {
            "full" => Kind::Full,
            "optimal" => Kind::Optimal,
            "pmtree" => Kind::Pm,
            "rlnapi" => Kind::Rln,
            _ => return None,
        })
    }
    pub fn cloneable(&self) -> bool {
        matches!(self, Kind::Full | Kind::Optimal)
    }
}

pub trait Backend: Send + Sync {
    fn apply(&mut self, op: &TreeOp) -> Outcome;
    fn observe(&self, positions: &[u64], full: bool) -> Result<Obs, String>;
    /// the depth the tree reports now (differs from the depth it was created with only after `Recreate`)
    fn depth(&self) -> usize;
    fn boxed_clone(&self) -> Option<Box<dyn Backend>>;
    /// C07: alterations of the proof of `pos` that must not be accepted; returns descriptions of
    /// those that were accepted. `other_vals` are leaf values different from the stored one.
    fn binding_failures(&self, pos: u64, stored: &BigUint, other_vals: &[BigUint], model: &IdealTree) -> Vec<String>;
}

static DIR_COUNTER: AtomicU64 = AtomicU64::new(0);
pub fn scratch_dir(tag: &str) -> PathBuf {
    let base = std::env::var("ZKV_SCRATCH").unwrap_or_else(|_| "/dev/shm".into());
    let n = DIR_COUNTER.fetch_add(1, Ordering::SeqCst);
    PathBuf::from(base).join(format!("{}-{}-{}", tag, std::process::id(), n))
}

/// rebuilds a proof object of the backend's own type from (sibling, direction) parts
pub trait Surgery: ZerokitMerkleProof {
    fn from_parts(parts: Vec<(Fr, u8)>) -> Self;
}
impl Surgery for FullMerkleProof<PoseidonHash> {
    fn from_parts(parts: Vec<(Fr, u8)>) -> Self {
        FullMerkleProof(parts.into_iter().map(|(v, b)| if b == 0 { FullMerkleBranch::Left(v) } else { FullMerkleBranch::Right(v) }).collect())
    }
}
impl Surgery for OptimalMerkleProof<PoseidonHash> {
    fn from_parts(parts: Vec<(Fr, u8)>) -> Self {
        OptimalMerkleProof(parts)
    }
}
impl Surgery for PmTreeProof {
    fn from_parts(parts: Vec<(Fr, u8)>) -> Self {
        PmTreeProof::verif_from_parts(parts)
    }
}

pub struct TraitBackend<T: ZerokitMerkleTree> {
    t: Option<T>,
    depth: usize,
    mk: fn(usize, &Option<PathBuf>) -> Result<T, String>,
    cl: Option<fn(&T) -> T>,
    /// persistent location (pmtree); removed on drop
    path: Option<PathBuf>,
}

impl<T: ZerokitMerkleTree> Drop for TraitBackend<T> {
    fn drop(&mut self) {
        self.t = None;
        if let Some(p) = &self.path {
            let _ = std::fs::remove_dir_all(p);
        }
    }
}

fn mk_full(d: usize, _p: &Option<PathBuf>) -> Result<FullMerkleTree<PoseidonHash>, String> {
    FullMerkleTree::<PoseidonHash>::default(d).map_err(|e| e.to_string())
}
fn mk_opt(d: usize, _p: &Option<PathBuf>) -> Result<OptimalMerkleTree<PoseidonHash>, String> {
    OptimalMerkleTree::<PoseidonHash>::default(d).map_err(|e| e.to_string())
}
pub fn pm_config(path: &PathBuf) -> Result<PmtreeConfig, String> {
    let cfg = json!({"path": path.to_str().unwrap(), "temporary": false, "cache_capacity": 1048576, "flush_every_ms": Value::Null, "mode": "HighThroughput", "use_compression": false});
    PmtreeConfig::from_str(&cfg.to_string()).map_err(|e| e.to_string())
}
fn mk_pm(d: usize, p: &Option<PathBuf>) -> Result<PmTree, String> {
    let cfg = pm_config(p.as_ref().unwrap())?;
    PmTree::new(d, Fr::from(0u64), cfg).map_err(|e| e.to_string())
}

impl<T> TraitBackend<T>
where
    T: ZerokitMerkleTree + Send + Sync + 'static,
    T::Hasher: zerokit_utils::merkle_tree::Hasher<Fr = Fr>,
    T::Proof: Surgery + ZerokitMerkleProof<Index = u8, Hasher = T::Hasher>,
{
    fn tree(&self) -> &T {
        self.t.as_ref().expect("tree present")
    }
    fn do_apply(&mut self, op: &TreeOp) -> Result<(), String> {
        let e = |r: color_eyre::Result<()>| r.map_err(|e| e.to_string());
        let frs = |vs: &Vec<u8>| vs.iter().map(|v| to_fr(&val(*v))).collect::<Vec<_>>();
        match op {
            TreeOp::Init(vs) => {
                self.reset()?;
                let t = self.t.as_mut().unwrap();
                return e(t.override_range(0, frs(vs).into_iter(), Vec::<usize>::new().into_iter()));
            }
            TreeOp::Reset => return self.reset(),
            TreeOp::Reopen => {
                if self.path.is_none() {
                    return Ok(());
                }
                e(self.t.as_mut().unwrap().close_db_connection())?;
                self.t = None; // drop releases the storage lock
                let nt = (self.mk)(self.depth, &self.path)?;
                self.t = Some(nt);
                return Ok(());
            }
            TreeOp::Flush => {
                if self.path.is_none() {
                    return Ok(());
                }
                return e(self.t.as_mut().unwrap().close_db_connection());
            }
            TreeOp::DropReopen => {
                if self.path.is_none() {
                    return Ok(());
                }
                self.t = None;
                // (the storage lock is released a few ms after the handle is gone: SledDB::load waits for it)
                let nt = (self.mk)(self.depth, &self.path)?;
                self.t = Some(nt);
                return Ok(());
            }
            TreeOp::Recreate(d2) => {
                if self.path.is_none() {
                    return Ok(());
                }
                e(self.t.as_mut().unwrap().close_db_connection())?;
                self.t = None;
                match (self.mk)(*d2 as usize, &self.path) {
                    Ok(nt) => {
                        self.depth = nt.depth();
                        self.t = Some(nt);
                        return Ok(());
                    }
                    Err(err) => {
                        // refused: carry on with the stored tree
                        self.t = Some((self.mk)(self.depth, &self.path)?);
                        return Err(err);
                    }
                }
            }
            _ => {}
        }
        let t = self.t.as_mut().expect("tree present");
        match op {
            TreeOp::Set(i, v) => e(t.set(*i as usize, to_fr(&val(*v)))),
            TreeOp::Delete(i) => e(t.delete(*i as usize)),
            TreeOp::Append(v) => e(t.update_next(to_fr(&val(*v)))),
            TreeOp::Range(s, vs) => e(t.set_range(*s as usize, frs(vs).into_iter())),
            TreeOp::Batch(s, vs, rem) => e(t.override_range(
                *s as usize,
                frs(vs).into_iter(),
                rem.iter().map(|r| *r as usize).collect::<Vec<_>>().into_iter(),
            )),
            TreeOp::ComputeRoot => t.compute_root().map(|_| ()).map_err(|e| e.to_string()),
            TreeOp::Init(_) | TreeOp::Reset | TreeOp::Reopen | TreeOp::Recreate(_) | TreeOp::Flush | TreeOp::DropReopen => unreachable!(),
        }
    }
    fn reset(&mut self) -> Result<(), String> {
        self.t = None;
        if let Some(p) = &self.path {
            let _ = std::fs::remove_dir_all(p);
        }
        self.t = Some((self.mk)(self.depth, &self.path)?);
        Ok(())
    }
}

impl<T> Backend for TraitBackend<T>
where
    T: ZerokitMerkleTree + Send + Sync + 'static,
    T::Hasher: zerokit_utils::merkle_tree::Hasher<Fr = Fr>,
    T::Proof: Surgery + ZerokitMerkleProof<Index = u8, Hasher = T::Hasher>,
{
    fn apply(&mut self, op: &TreeOp) -> Outcome {
        if matches!(op, TreeOp::Reopen | TreeOp::Recreate(_) | TreeOp::Flush | TreeOp::DropReopen) && self.path.is_none() {
            return Outcome::NotApplicable;
        }
        match guard(|| self.do_apply(op)) {
            Ok(Ok(())) => Outcome::Ok,
            Ok(Err(e)) => Outcome::Err(e),
            Err(p) => Outcome::Panic(p),
        }
    }
    fn depth(&self) -> usize {
        self.depth
    }
    fn observe(&self, positions: &[u64], full: bool) -> Result<Obs, String> {
        guard(|| {
            let t = self.tree();
            let d = self.depth;
            let cap = 1u64 << d;
            let mut o = Obs { root: from_fr(&t.root()), hwm: t.leaves_set() as u64, positions: positions.to_vec(), ..Default::default() };
            o.leaves = positions.iter().map(|i| t.get(*i as usize).map(|f| from_fr(&f)).unwrap_or_else(|_| pow2(255))).collect();
            o.oob_get_is_err = t.get(cap as usize).is_err();
            let bad = pow2(255);
            for l in 0..=d {
                if full {
                    o.subtree.push((0..(1u64 << l)).map(|k| t.get_subtree_root(l, (k << (d - l)) as usize).map(|f| from_fr(&f)).unwrap_or_else(|_| bad.clone())).collect());
                } else {
                    o.subtree.push(positions.iter().map(|i| t.get_subtree_root(l, *i as usize).map(|f| from_fr(&f)).unwrap_or_else(|_| bad.clone())).collect());
                }
            }
            o.empty = t.get_empty_leaves_indices().into_iter().map(|x| x as u64).collect();
            for i in positions {
                match t.proof(*i as usize) {
                    Ok(pr) => {
                        let leaf = t.get(*i as usize).unwrap_or(Fr::from(0u64));
                        o.proofs.push(ProofObs {
                            elems: pr.get_path_elements().iter().map(from_fr).collect(),
                            bits: pr.get_path_index(),
                            leaf_index: Some(pr.leaf_index() as u64),
                            length: Some(pr.length()),
                            recomputed: Some(from_fr(&pr.compute_root_from(&leaf))),
                            accepted: Some(matches!(t.verify(&leaf, &pr), Ok(true))),
                        });
                    }
                    Err(_) => o.proofs.push(ProofObs { elems: vec![], bits: vec![], leaf_index: None, length: None, recomputed: None, accepted: None }),
                }
            }
            o
        })
    }
    fn boxed_clone(&self) -> Option<Box<dyn Backend>> {
        let cl = self.cl?;
        Some(Box::new(TraitBackend { t: Some(cl(self.tree())), depth: self.depth, mk: self.mk, cl: self.cl, path: None }))
    }
    fn binding_failures(&self, pos: u64, stored: &BigUint, other_vals: &[BigUint], model: &IdealTree) -> Vec<String> {
        let mut bad = vec![];
        let r = guard(|| {
            let mut bad = vec![];
            let t = self.tree();
            let pr = match t.proof(pos as usize) {
                Ok(p) => p,
                Err(_) => return bad,
            };
            let root = t.root();
            let accepted = |leaf: &Fr, pr: &T::Proof| matches!(t.verify(leaf, pr), Ok(true));
            // (1) a different leaf value never recomputes the root / is never accepted
            for v in other_vals {
                let fv = to_fr(v);
                if pr.compute_root_from(&fv) == root {
                    bad.push(format!("proof of position {pos} recomputes the root from a different leaf {v}"));
                }
                if accepted(&fv, &pr) {
                    bad.push(format!("tree accepts leaf {v} with the proof of position {pos}"));
                }
            }
            let parts: Vec<(Fr, u8)> = pr.get_path_elements().into_iter().zip(pr.get_path_index()).collect();
            let fstored = to_fr(stored);
            // (2) any single altered sibling
            for lvl in 0..parts.len() {
                for delta in [Fr::from(1u64), to_fr(&(p() - big(1)))] {
                    let mut q = parts.clone();
                    q[lvl].0 += delta;
                    let alt = T::Proof::from_parts(q);
                    if accepted(&fstored, &alt) {
                        bad.push(format!("proof of position {pos} with sibling {lvl} altered is accepted"));
                    }
                }
            }
            // (3) a flipped direction bit at a level where the two children differ
            let mut idx = pos;
            let mut cur = stored.clone();
            for lvl in 0..parts.len() {
                let sib = from_fr(&parts[lvl].0);
                let differ = sib != cur;
                if differ {
                    let mut q = parts.clone();
                    q[lvl].1 ^= 1;
                    let alt = T::Proof::from_parts(q);
                    if accepted(&fstored, &alt) {
                        bad.push(format!("proof of position {pos} with direction bit {lvl} flipped is accepted"));
                    }
                }
                // node one level up, from the model
                idx >>= 1;
                cur = model.node(model.depth - lvl - 1, idx);
            }
            bad
        });
        match r {
            Ok(v) => bad.extend(v),
            Err(pn) => bad.push(format!("panic while checking altered proofs of position {pos}: {pn}")),
        }
        bad
    }
}

/// the byte-level public API on a real RLN instance of small height
pub struct RlnBackend {
    rln: std::sync::Mutex<Option<RLN>>,
    depth: usize,
}
fn rd(b: Vec<u8>) -> Cursor<Vec<u8>> {
    Cursor::new(b)
}
thread_local! {
    /// RLN instances are expensive to create (key material is cloned); an instance holds no state
    /// besides its tree, which `set_tree` replaces by a fresh one, so instances are recycled.
    static RLN_POOL: std::cell::RefCell<Vec<RLN>> = const { std::cell::RefCell::new(Vec::new()) };
}
impl RlnBackend {
    pub fn new(depth: usize) -> Result<Self, String> {
        let pooled = RLN_POOL.with(|p| p.borrow_mut().pop());
        let rln = match pooled {
            Some(mut r) => {
                r.set_tree(depth).map_err(|e| e.to_string())?;
                r
            }
            None => RLN::new(depth, Cursor::new(json!({}).to_string())).map_err(|e| e.to_string())?,
        };
        Ok(RlnBackend { rln: std::sync::Mutex::new(Some(rln)), depth })
    }
}
impl Drop for RlnBackend {
    fn drop(&mut self) {
        if let Some(r) = self.rln.get_mut().ok().and_then(|g| g.take()) {
            RLN_POOL.with(|p| {
                let mut p = p.borrow_mut();
                if p.len() < 4 {
                    p.push(r);
                }
            });
        }
    }
}
impl Backend for RlnBackend {
    fn apply(&mut self, op: &TreeOp) -> Outcome {
        let depth = self.depth;
        let rln = self.rln.get_mut().unwrap_or_else(|e| e.into_inner()).as_mut().expect("instance present");
        let vals = |vs: &Vec<u8>| codec::vec_fr(&vs.iter().map(|v| val(*v)).collect::<Vec<_>>());
        let r = guard(|| -> Result<Option<()>, String> {
            let e = |r: color_eyre::Result<()>| r.map(Some).map_err(|e| e.to_string());
            match op {
                TreeOp::Set(i, v) => e(rln.set_leaf(*i as usize, rd(codec::fr(&val(*v))))),
                TreeOp::Delete(i) => e(rln.delete_leaf(*i as usize)),
                TreeOp::Append(v) => e(rln.set_next_leaf(rd(codec::fr(&val(*v))))),
                TreeOp::Range(s, vs) => e(rln.set_leaves_from(*s as usize, rd(vals(vs)))),
                TreeOp::Batch(s, vs, rem) => {
                    if rem.iter().any(|r| *r > 255) {
                        return Ok(None);
                    }
                    let idx: Vec<u8> = rem.iter().map(|r| *r as u8).collect();
                    e(rln.atomic_operation(*s as usize, rd(vals(vs)), rd(codec::vec_u8(&idx))))
                }
                TreeOp::Init(vs) => e(rln.init_tree_with_leaves(rd(vals(vs)))),
                TreeOp::Reset => e(rln.set_tree(depth)),
                TreeOp::ComputeRoot | TreeOp::Reopen | TreeOp::Recreate(_) | TreeOp::Flush | TreeOp::DropReopen => Ok(None),
            }
        });
        match r {
            Ok(Ok(Some(()))) => Outcome::Ok,
            Ok(Ok(None)) => Outcome::NotApplicable,
            Ok(Err(e)) => Outcome::Err(e),
            Err(p) => Outcome::Panic(p),
        }
    }
    fn depth(&self) -> usize {
        self.depth
    }
    fn observe(&self, positions: &[u64], full: bool) -> Result<Obs, String> {
        // leaves_set takes &mut self in the public API, hence the lock
        let mut g = self.rln.lock().unwrap_or_else(|e| e.into_inner());
        let hwm_now = match guard(|| g.as_mut().expect("instance present").leaves_set() as u64) { Ok(n) => n, Err(p) => return Err(p) };
        let rln: &RLN = g.as_ref().expect("instance present");
        let d = self.depth;
        guard(|| {
            let cap = 1u64 << d;
            let bad = pow2(255);
            let mut o = Obs { positions: positions.to_vec(), ..Default::default() };
            let mut buf = Cursor::new(Vec::<u8>::new());
            o.root = match rln.get_root(&mut buf) { Ok(()) if buf.get_ref().len() == 32 => from_le(buf.get_ref()), _ => bad.clone() };
            o.hwm = hwm_now;
            let get = |i: u64| -> Option<BigUint> {
                let mut b = Cursor::new(Vec::<u8>::new());
                match rln.get_leaf(i as usize, &mut b) { Ok(()) if b.get_ref().len() == 32 => Some(from_le(b.get_ref())), _ => None }
            };
            o.leaves = positions.iter().map(|i| get(*i).unwrap_or_else(|| bad.clone())).collect();
            o.oob_get_is_err = get(cap).is_none();
            let sub = |l: usize, i: u64| -> BigUint {
                let mut b = Cursor::new(Vec::<u8>::new());
                match rln.get_subtree_root(l, i as usize, &mut b) { Ok(()) if b.get_ref().len() == 32 => from_le(b.get_ref()), _ => bad.clone() }
            };
            for l in 0..=d {
                if full {
                    o.subtree.push((0..(1u64 << l)).map(|k| sub(l, k << (d - l))).collect());
                } else {
                    o.subtree.push(positions.iter().map(|i| sub(l, *i)).collect());
                }
            }
            let mut b = Cursor::new(Vec::<u8>::new());
            o.empty = match rln.get_empty_leaves_indices(&mut b) { Ok(()) => codec::decode_vec_usize(b.get_ref()).unwrap_or_else(|| vec![u64::MAX]), Err(_) => vec![u64::MAX] };
            for i in positions {
                let mut b = Cursor::new(Vec::<u8>::new());
                match rln.get_proof(*i as usize, &mut b) {
                    Ok(()) => match codec::decode_merkle_proof(b.get_ref()) {
                        Some((elems, bits)) => {
                            let leaf = get(*i).unwrap_or_else(|| bad.clone());
                            let rec = fold_path(&leaf, &elems, &bits);
                            let li = bits.iter().enumerate().fold(0u64, |a, (k, bit)| a | ((*bit as u64 & 1) << k));
                            let n = elems.len();
                            let acc = rec == o.root;
                            o.proofs.push(ProofObs { elems, bits, leaf_index: Some(li), length: Some(n), recomputed: Some(rec), accepted: Some(acc) })
                        }
                        None => o.proofs.push(ProofObs { elems: vec![], bits: vec![], leaf_index: None, length: None, recomputed: None, accepted: None }),
                    },
                    Err(_) => o.proofs.push(ProofObs { elems: vec![], bits: vec![], leaf_index: None, length: None, recomputed: None, accepted: None }),
                }
            }
            o
        })
    }
    fn boxed_clone(&self) -> Option<Box<dyn Backend>> {
        None
    }
    fn binding_failures(&self, _pos: u64, _stored: &BigUint, _other: &[BigUint], _model: &IdealTree) -> Vec<String> {
        vec![]
    }
}

pub fn fresh(kind: Kind, depth: usize) -> Result<Box<dyn Backend>, String> {
    Ok(match kind {
        Kind::Full => Box::new(TraitBackend { t: Some(mk_full(depth, &None)?), depth, mk: mk_full, cl: Some(|t| t.clone()), path: None }),
        Kind::Optimal => Box::new(TraitBackend { t: Some(mk_opt(depth, &None)?), depth, mk: mk_opt, cl: Some(|t| t.clone()), path: None }),
        Kind::Pm => {
            let path = Some(scratch_dir("pm"));
            Box::new(TraitBackend { t: Some(mk_pm(depth, &path)?), depth, mk: mk_pm, cl: None, path })
        }
        Kind::Rln => Box::new(RlnBackend::new(depth)?),
    })
}

// ------------------------------------------------------------------------------------------
// comparison and classification
// ------------------------------------------------------------------------------------------

#[derive(Clone, Copy, Debug, PartialEq, Eq)]
pub enum Focus {
    C06,
    C07,
    C08,
    C15,
}
impl Focus {
    pub fn id(&self) -> &'static str {
        match self {
            Focus::C06 => "C06",
            Focus::C07 => "C07",
            Focus::C08 => "C08",
            Focus::C15 => "C15",
        }
    }
    /// does this property judge transitions made by `op`?
    fn owns_op(&self, op: &TreeOp, kind: Kind) -> bool {
        match self {
            Focus::C06 => !op.is_batch() && !matches!(op, TreeOp::Reopen | TreeOp::ComputeRoot | TreeOp::Recreate(_) | TreeOp::Flush | TreeOp::DropReopen),
            Focus::C07 => true,
            // (RLN::set_leaves_from, the byte-level entry point behind Range on the RLN backend, is one of the batch entry
            // points C08 names)
            Focus::C08 => op.is_batch() || (kind == Kind::Rln && matches!(op, TreeOp::Range(..))),
            Focus::C15 => true,
        }
    }
}

/// components of the observation, in reporting order
fn diff(want: &Obs, got: &Obs) -> Vec<(&'static str, String)> {
    let mut v = vec![];
    if want.leaves != got.leaves {
        let k = want.leaves.iter().zip(got.leaves.iter()).position(|(a, b)| a != b).unwrap_or(0);
        v.push(("wrong-leaves", format!("leaf {}: expected {} got {}", want.positions.get(k).copied().unwrap_or(0), want.leaves.get(k).cloned().unwrap_or_default(), got.leaves.get(k).cloned().unwrap_or_default())));
    }
    if want.root != got.root {
        v.push(("wrong-root", format!("root: expected {} got {}", want.root, got.root)));
    }
    if want.subtree != got.subtree {
        let mut where_ = String::new();
        'o: for (l, (a, b)) in want.subtree.iter().zip(got.subtree.iter()).enumerate() {
            for (k, (x, y)) in a.iter().zip(b.iter()).enumerate() {
                if x != y {
                    where_ = format!("level {l} node/pos {k}: expected {x} got {y}");
                    break 'o;
                }
            }
        }
        v.push(("wrong-subtree-root", where_));
    }
    if want.hwm != got.hwm {
        v.push(("wrong-leaf-count", format!("leaves_set: expected {} got {}", want.hwm, got.hwm)));
    }
    if !got.oob_get_is_err {
        v.push(("oob-read-accepted", "get(capacity) did not report an error".into()));
    }
    if want.empty != got.empty {
        v.push(("wrong-empty-list", format!("empty positions: expected {:?} got {:?}", trunc(&want.empty), trunc(&got.empty))));
    }
    if want.proofs != got.proofs {
        let k = want.proofs.iter().zip(got.proofs.iter()).position(|(a, b)| a != b).unwrap_or(0);
        let (a, b) = (&want.proofs[k], &got.proofs[k]);
        let what = if a.length != b.length { "length" } else if a.bits != b.bits { "direction bits" } else if a.leaf_index != b.leaf_index { "decoded position" } else if a.elems != b.elems { "siblings" } else if a.recomputed != b.recomputed { "recomputed root" } else { "own check rejects" };
        v.push(("wrong-proof", format!("proof of position {}: {}", want.positions.get(k).copied().unwrap_or(0), what)));
    }
    v
}
fn trunc(v: &[u64]) -> Vec<u64> {
    v.iter().take(12).cloned().collect()
}

fn owned(focus: Focus, symptom: &str) -> bool {
    match focus {
        Focus::C06 => matches!(symptom, "panic" | "wrong-result" | "wrong-state" | "oob-read-accepted" | "rejected-but-changed"),
        Focus::C07 => matches!(symptom, "wrong-proof" | "proof-not-binding" | "panic-in-proof"),
        Focus::C08 => matches!(symptom, "panic" | "wrong-result" | "wrong-state" | "rejected-but-changed"),
        Focus::C15 => matches!(symptom, "wrong-empty-list"),
    }
}

/// Result of judging one transition on one backend.
pub struct Judged {
    /// discrepancies owned by the focus property
    pub owned: Vec<Discrepancy>,
    /// any discrepancy at all (owned or not): the implementation has left the model
    pub off_model: bool,
    pub outcome_class: String,
    /// index of the accepted model successor (0 = ok state, 1.. = err states) when on-model
    pub next: Option<IdealTree>,
}

pub struct CaseCtx<'a> {
    pub focus: Focus,
    pub kind: Kind,
    pub depth: usize,
    pub positions: &'a [u64],
    pub full: bool,
    pub hist: &'a [TreeOp],
    /// C07: (backend, model state) pairs whose binding predicates were already evaluated
    pub binding_seen: Option<&'a std::sync::Mutex<BTreeSet<(Kind, IdealTree)>>>,
}

fn case_json(c: &CaseCtx, op: &TreeOp) -> Value {
    let mut h: Vec<TreeOp> = c.hist.to_vec();
    h.push(op.clone());
    json!({"engine":"tree","backend":c.kind.name(),"depth":c.depth,"history":hist_json(&h),
           "positions": if c.full && c.positions.len() as u64 == (1u64 << c.depth) { Value::Null } else { json!(c.positions) },
           "dense": c.full && c.positions.len() as u64 != (1u64 << c.depth)})
}

pub fn judge(c: &CaseCtx, pre: &IdealTree, op: &TreeOp, outcome: &Outcome, be: &dyn Backend) -> Judged {
    let exp = model_step(pre, op);
    let sh = shape(pre, op);
    let prefix = format!("{}/{}/{}", c.focus.id(), c.kind.name(), sh);
    let mut all: Vec<(String, String)> = vec![]; // (symptom, detail)
    let mut next: Option<IdealTree> = None;
    let oc;
    match outcome {
        Outcome::Panic(m) => {
            oc = "panic".to_string();
            all.push(("panic".into(), format!("panicked: {m}")));
        }
        Outcome::NotApplicable => unreachable!(),
        Outcome::Ok if matches!(op, TreeOp::Recreate(_)) && be.depth() != c.depth => {
            // the implementation started over with another depth: whatever it holds now must be a
            // consistent FRESH tree of the depth it reports; the history ends here
            oc = "ok-new-depth".to_string();
            let nd = be.depth();
            let asked = match op { TreeOp::Recreate(d) => *d as usize, _ => 0 };
            if nd != asked {
                all.push(("wrong-result".into(), format!("the tree reports depth {nd}: neither the stored depth {} nor the requested depth {asked}", c.depth)));
            } else if nd > 12 {
                all.push(("wrong-result".into(), format!("unexpected depth {nd}")));
            } else {
                let positions: Vec<u64> = (0..(1u64 << nd)).collect();
                match be.observe(&positions, true) {
                    Err(pn) => all.push(("panic".into(), format!("panicked while reading the state: {pn}"))),
                    Ok(got) => {
                        let want = model_obs(&IdealTree::new(nd), &positions, true);
                        for (s, d) in diff(&want, &got) {
                            all.push((s.to_string(), format!("fresh tree of depth {nd} expected after re-creation; {d}")));
                        }
                        // proofs are judged on their own as well (they must fold to the root the tree reports,
                        // whatever the state is): a state symptom must not hide them here
                        let broken = got.proofs.iter().position(|p| p.recomputed.as_ref() != Some(&got.root) || p.accepted != Some(true));
                        if let Some(k) = broken {
                            if c.focus == Focus::C07 {
                                all.retain(|(s, _)| s == "wrong-proof");
                                if all.is_empty() {
                                    all.push(("wrong-proof".into(), format!("after re-creation at depth {nd} the proof of position {k} does not fold to the root the tree reports")));
                                }
                            }
                        }
                    }
                }
            }
        }
        Outcome::Ok | Outcome::Err(_) => {
            let is_ok = matches!(outcome, Outcome::Ok);
            oc = if is_ok { "ok".to_string() } else { "err".to_string() };
            let candidates: Vec<IdealTree> = if is_ok { exp.ok.iter().cloned().collect() } else { exp.err.clone() };
            if candidates.is_empty() {
                let d = match outcome { Outcome::Err(e) => format!("reported an error ({e}) for an operation the ideal tree accepts"), _ => "reported success for an operation that cannot be carried out".to_string() };
                all.push(("wrong-result".into(), d));
                // still compare with the state the model would be in if the result is taken at face value
                let fallback = if is_ok { pre.clone() } else { pre.clone() };
                if let Ok(got) = be.observe(c.positions, c.full) {
                    let want = model_obs(&fallback, c.positions, c.full);
                    if !is_ok && diff(&want, &got).iter().any(|(s, _)| *s != "wrong-proof" && *s != "wrong-empty-list") {
                        all.push(("rejected-but-changed".into(), "the rejected operation changed the observable state".into()));
                    }
                }
            } else {
                match be.observe(c.positions, c.full) {
                    Err(pn) => all.push(("panic".into(), format!("panicked while reading the state: {pn}"))),
                    Ok(got) => {
                        // accept the first candidate with an equal observation; report against the first one otherwise
                        let mut best: Option<Vec<(&'static str, String)>> = None;
                        for cand in &candidates {
                            let want = model_obs(cand, c.positions, c.full);
                            let df = diff(&want, &got);
                            if df.is_empty() {
                                next = Some(cand.clone());
                                best = Some(vec![]);
                                break;
                            }
                            if best.is_none() {
                                best = Some(df);
                            }
                        }
                        for (s, d) in best.unwrap_or_default() {
                            let s2 = if !is_ok && matches!(s, "wrong-leaves" | "wrong-root" | "wrong-subtree-root" | "wrong-leaf-count") { "rejected-but-changed" } else { s };
                            all.push((s2.to_string(), d));
                        }
                    }
                }
            }
        }
    }
    let off_model = !all.is_empty();
    let mut owned_ds = vec![];
    // The empty list and the proofs are functions of the tree state: when the state itself (leaves,
    // root, leaf count, result) is already wrong, they are consequences and are left to the
    // property that owns the state symptom; the transition is not expanded in either case.
    let primary_present = all.iter().any(|(s, _)| !matches!(s.as_str(), "wrong-empty-list" | "wrong-proof"));
    if primary_present {
        all.retain(|(s, _)| !matches!(s.as_str(), "wrong-empty-list" | "wrong-proof"));
        // one finding class per transition: the first symptom in the order panic, wrong result,
        // rejected-but-changed, wrong state (leaves, leaf count, root, subtree roots are one class:
        // they are views of the same stored state; the detail says which view differs first)
        let prio = |s: &str| match s { "panic" => 0, "wrong-result" => 1, "rejected-but-changed" => 2, "oob-read-accepted" => 4, _ => 3 };
        all.sort_by_key(|(s, _)| prio(s));
        all.truncate(1);
        if prio(&all[0].0) == 3 {
            all[0].0 = "wrong-state".into();
        }
    }
    if c.focus.owns_op(op, c.kind) {
        let mut seen = BTreeSet::new();
        for (s, d) in &all {
            if owned(c.focus, s) && seen.insert(s.clone()) {
                owned_ds.push(Discrepancy { key: format!("{prefix}/{s}"), case: case_json(c, op), detail: format!("after {} on a {} tree of depth {} (history length {}): {}", op.brief(), c.kind.name(), c.depth, c.hist.len(), d) });
            }
        }
    }
    // C07 binding predicates at the reached state (only when the state is on-model)
    let first_visit = |m: &IdealTree| match c.binding_seen {
        Some(set) => set.lock().unwrap().insert((c.kind, m.clone())),
        None => true,
    };
    if c.focus == Focus::C07 && next.is_some() && first_visit(next.as_ref().unwrap()) {
        let m = next.as_ref().unwrap();
        let mut fails = vec![];
        // on the sparse (large-depth) plans the alteration predicates run on every third position of the alphabet
        let step = if c.full { 1 } else { 3 };
        for pos in c.positions.iter().step_by(step) {
            let stored = m.leaf(*pos);
            let others: Vec<BigUint> = (0u8..4).map(val).filter(|v| *v != stored).collect();
            fails.extend(be.binding_failures(*pos, &stored, &others, m));
        }
        if let Some(f) = fails.first() {
            let s = if f.starts_with("panic") { "panic-in-proof" } else { "proof-not-binding" };
            owned_ds.push(Discrepancy { key: format!("C07/{}/state/{s}", c.kind.name()), case: case_json(c, op), detail: format!("in the state reached by {}: {}", hist_json(&[c.hist, &[op.clone()]].concat()), f) });
        }
    }
    Judged { owned: owned_ds, off_model, outcome_class: format!("{sh}:{oc}"), next }
}

// ------------------------------------------------------------------------------------------
// alphabets
// ------------------------------------------------------------------------------------------

pub struct Alphabet {
    pub ops: Vec<TreeOp>,
}

/// The E1 alphabet for a tree of depth d (capacity c), value codes `vals` (non-default ones).
pub fn alphabet(d: usize, vals: &[u8], with_batch: bool, with_plain: bool, extra: &[TreeOp]) -> Vec<TreeOp> {
    let c = 1u64 << d;
    let mut ops = vec![];
    let mut allv: Vec<u8> = vals.to_vec();
    allv.push(0);
    if with_plain {
        for i in 0..=c {
            for v in &allv {
                ops.push(TreeOp::Set(i, *v));
            }
        }
        for i in 0..=c {
            ops.push(TreeOp::Delete(i));
        }
        for v in &allv {
            ops.push(TreeOp::Append(*v));
        }
        let a = vals[0];
        let b = *vals.get(1).unwrap_or(&vals[0]);
        let mut lens: Vec<usize> = vec![0, 1, 2, 3, (c / 2 + 1) as usize, (c + 1) as usize];
        lens.sort();
        lens.dedup();
        for s in 0..=c {
            for n in &lens {
                // contents alternate a, b so that order mistakes are visible
                let vs: Vec<u8> = (0..*n).map(|k| if k % 2 == 0 { a } else { b }).collect();
                ops.push(TreeOp::Range(s, vs));
            }
        }
        ops.push(TreeOp::Reset);
    }
    if with_batch {
        let a = vals[0];
        let b = *vals.get(1).unwrap_or(&vals[0]);
        let mut starts = vec![0, 1, c / 2, c - 1];
        starts.sort();
        starts.dedup();
        // (removal lists may name a position more than once, adjacently or not)
        let mut rsets: Vec<Vec<u64>> = vec![vec![], vec![0], vec![c - 1], vec![0, 1], vec![0, 2], vec![1, 3], vec![c], vec![2, 0], vec![0, 0], vec![0, 0, c - 1], vec![1, c - 1, 1], vec![c - 1, 0, c - 1]];
        rsets.retain(|r| r.iter().all(|x| *x <= c));
        if d >= 3 {
            // (depth 3: two of the four lists with repeats; depths 1 and 2 have them all)
            rsets.retain(|r| *r != vec![0, 0] && *r != vec![c - 1, 0, c - 1]);
        }
        rsets.sort();
        rsets.dedup();
        for s in &starts {
            for n in 0..=2usize {
                let vs: Vec<u8> = (0..n).map(|k| if k % 2 == 0 { a } else { b }).collect();
                for r in &rsets {
                    // lists with repeats: removal-only batches (in a batch that also writes leaves the persistent backend
                    // has its listed defect for almost every shape; repeats there would only re-report it under new names)
                    let mut dd = r.clone();
                    dd.sort();
                    dd.dedup();
                    if dd.len() != r.len() && n != 0 {
                        continue;
                    }
                    ops.push(TreeOp::Batch(*s, vs.clone(), r.clone()));
                }
            }
        }
        // a write that does not fit, with and without removals
        ops.push(TreeOp::Batch(c - 1, vec![a, b], vec![]));
        ops.push(TreeOp::Batch(c - 1, vec![a, b], vec![0]));
        ops.push(TreeOp::Batch(c + 1, vec![], vec![0]));
        for n in [0usize, 1, 2, c as usize, c as usize + 1] {
            let vs: Vec<u8> = (0..n).map(|k| if k % 2 == 0 { a } else { b }).collect();
            ops.push(TreeOp::Init(vs));
        }
    }
    // leaves whose value equals an empty-subtree hash
    if with_plain {
        ops.push(TreeOp::Set(0, 4));
        ops.push(TreeOp::Set(c - 1, 5));
        ops.push(TreeOp::Append(4));
        ops.push(TreeOp::Range(c / 2, vec![4, 5]));
    }
    if with_batch {
        ops.push(TreeOp::Batch(0, vec![5, 4], vec![]));
    }
    // positions at the top of the integer range (start + length must not wrap around the capacity check)
    if with_plain {
        ops.push(TreeOp::Set(u64::MAX, vals[0]));
        ops.push(TreeOp::Delete(u64::MAX));
        ops.push(TreeOp::Range(u64::MAX, vec![vals[0]]));
        ops.push(TreeOp::Range(u64::MAX - 1, vec![vals[0], vals[0]]));
    }
    if with_batch {
        ops.push(TreeOp::Batch(u64::MAX, vec![vals[0]], vec![]));
        ops.push(TreeOp::Batch(u64::MAX - 1, vec![vals[0], vals[0]], vec![0]));
    }
    ops.extend_from_slice(extra);
    let mut seen = BTreeSet::new();
    ops.retain(|o| seen.insert(o.clone()));
    ops
}

// ------------------------------------------------------------------------------------------
// the explorer
// ------------------------------------------------------------------------------------------

pub struct ExploreCfg {
    pub focus: Focus,
    pub depth: usize,
    pub ops: Vec<TreeOp>,
    /// backends and, for each, the maximal history length it is driven to
    pub backends: Vec<(Kind, usize)>,
    /// histories up to this length are all executed (no de-duplication of model states)
    pub nodedup_len: usize,
    /// overall maximal history length
    pub max_len: usize,
    pub positions: Vec<u64>,
    pub full_obs: bool,
    /// optional restriction of the histories: (history so far, next operation) -> explored?
    pub allow: Option<fn(&[TreeOp], &TreeOp) -> bool>,
    /// sparse plans: operations after which EVERY node of the tree is compared (in-memory and persistent backends;
    /// the RLN byte API keeps the sparse observation)
    pub dense_after: Option<fn(&TreeOp) -> bool>,
    pub label: String,
}

/// transitions of the persistent backend that write a range far from offset 0 at depth 20 need gigabytes
/// (pmtree loads every node to the left of the range): such plans run few workers at a time
fn max_parallel_for(cfg: &ExploreCfg) -> usize {
    if cfg.depth >= 18 && cfg.ops.iter().any(|o| matches!(o, TreeOp::Range(s, _) | TreeOp::Batch(s, _, _) if *s > 4096 && *s < (1u64 << 20))) { 3 } else { usize::MAX }
}

#[derive(Default, Clone)]
pub struct ExploreStats {
    pub states: u64,
    pub transitions: u64,
    pub impl_traces: u64,
    pub max_depth: usize,
    pub fixpoint: bool,
    pub outcome_classes: BTreeSet<String>,
    pub off_model_pruned: u64,
    pub per_backend: BTreeMap<String, u64>,
    pub samples: Vec<Value>,
    pub states_per_level: Vec<u64>,
}

struct Node {
    model: IdealTree,
    hist: Vec<TreeOp>,
    live: HashMap<Kind, Box<dyn Backend>>,
    /// backends that are still on-model along this history
    alive: Vec<Kind>,
}

fn replay_to(kind: Kind, depth: usize, hist: &[TreeOp]) -> Result<Box<dyn Backend>, String> {
    let mut be = fresh(kind, depth)?;
    for op in hist {
        match be.apply(op) {
            Outcome::Panic(p) => return Err(format!("replay of an on-model history panicked: {p}")),
            _ => {}
        }
    }
    Ok(be)
}

struct Step {
    op: TreeOp,
    /// per backend: judged result
    results: Vec<(Kind, Judged, Option<Box<dyn Backend>>)>,
    model_next: IdealTree,
}

pub fn explore(cfg: &ExploreCfg, findings: &Findings, deadline: Option<std::time::Instant>) -> Result<ExploreStats, String> {
    let mut st = ExploreStats::default();
    let binding_seen: std::sync::Mutex<BTreeSet<(Kind, IdealTree)>> = std::sync::Mutex::new(BTreeSet::new());
    let root_model = IdealTree::new(cfg.depth);
    let mut live = HashMap::new();
    for (k, _) in &cfg.backends {
        if k.cloneable() {
            live.insert(*k, fresh(*k, cfg.depth)?);
        }
    }
    let mut frontier = vec![Node { model: root_model.clone(), hist: vec![], live, alive: cfg.backends.iter().map(|(k, _)| *k).collect() }];
    let mut seen: BTreeSet<IdealTree> = BTreeSet::new();
    seen.insert(root_model);
    st.states = 1;
    st.states_per_level.push(1);
    let mut level = 0usize;
    let mut last_rate: Option<f64> = None;
    let mut last_items = 0usize;
    let mut last_level_secs = 0.0f64;
    st.fixpoint = false;
    while !frontier.is_empty() && level < cfg.max_len {
        if let Some(dl) = deadline {
            if std::time::Instant::now() > dl {
                break;
            }
        }
        level += 1;
        // work items (node, operation, backend), executed in parallel; results come back in item order
        let mut items: Vec<(usize, usize, Kind)> = vec![];
        for (ni, node) in frontier.iter().enumerate() {
            for oi in 0..cfg.ops.len() {
                if let Some(allow) = cfg.allow {
                    if !allow(&node.hist, &cfg.ops[oi]) {
                        continue;
                    }
                }
                for (kind, maxlen) in &cfg.backends {
                    if level <= *maxlen && node.alive.contains(kind) {
                        items.push((ni, oi, *kind));
                    }
                }
            }
        }
        // do not start a level that, at the rate measured on the previous one, cannot finish before the cap
        if let (Some(dl), Some(rate)) = (deadline, last_rate) {
            let remaining = dl.saturating_duration_since(std::time::Instant::now()).as_secs_f64();
            if (last_items >= 500 || last_level_secs > 20.0) && items.len() as f64 * rate > remaining * 1.5 {
                level -= 1;
                break;
            }
        }
        let level_t0 = std::time::Instant::now();
        let timing = std::env::var("ZKV_TIMING").is_ok();
        // in-memory backends: threads of this process, cloning the live objects; persistent backend and RLN API:
        // worker subprocesses replaying the history (thousands of sled databases do not scale inside one process)
        let use_pool = std::env::var("ZKV_NO_POOL").is_err();
        let local_idx: Vec<usize> = (0..items.len()).filter(|i| !use_pool || items[*i].2.cloneable()).collect();
        let remote_idx: Vec<usize> = (0..items.len()).filter(|i| use_pool && !items[*i].2.cloneable()).collect();
        let run_local = |&(ni, oi, kind): &(usize, usize, Kind)| -> Result<Option<(Judged, Option<Box<dyn Backend>>)>, String> {
            let node = &frontier[ni];
            let op = &cfg.ops[oi];
            let mut be: Box<dyn Backend> = match node.live.get(&kind).and_then(|b| b.boxed_clone()) {
                Some(b) => b,
                None => replay_to(kind, cfg.depth, &node.hist)?,
            };
            let t0 = std::time::Instant::now();
            let outcome = be.apply(op);
            if outcome == Outcome::NotApplicable {
                return Ok(None);
            }
            let t1 = std::time::Instant::now();
            let dense = cfg.full_obs || (kind != Kind::Rln && cfg.dense_after.map(|f| f(op)).unwrap_or(false));
            let cc = CaseCtx { focus: cfg.focus, kind, depth: cfg.depth, positions: &cfg.positions, full: dense, hist: &node.hist, binding_seen: Some(&binding_seen) };
            let j = judge(&cc, &node.model, op, &outcome, be.as_ref());
            if timing {
                eprintln!("[timing] {} {:?} apply {:.3}s judge {:.3}s", kind.name(), op, (t1 - t0).as_secs_f64(), t1.elapsed().as_secs_f64());
            }
            let keep = if kind.cloneable() && j.next.is_some() { Some(be) } else { None };
            Ok(Some((j, keep)))
        };
        let local_items: Vec<(usize, usize, Kind)> = local_idx.iter().map(|i| items[*i]).collect();
        let local_done = par_map(&local_items, ncpu(), |_, it| run_local(it));
        let remote_reqs: Vec<Value> = remote_idx.iter().map(|i| {
            let (ni, oi, kind) = items[*i];
            json!({"focus": cfg.focus.id(), "kind": kind.name(), "depth": cfg.depth, "positions": if cfg.full_obs && cfg.positions.len() as u64 == (1u64 << cfg.depth) { Value::Null } else { json!(cfg.positions) },
                   "dense": cfg.full_obs || (kind != Kind::Rln && cfg.dense_after.map(|f| f(&cfg.ops[oi])).unwrap_or(false)),
                   "hist": hist_json(&frontier[ni].hist), "op": cfg.ops[oi].to_json(), "model": model_to_json(&frontier[ni].model)})
        }).collect();
        // a level that runs past the cap (plus a grace period) is abandoned as a whole: nothing of it is counted
        let hard = deadline.map(|d| d + std::time::Duration::from_secs(120));
        let remote_done = tree_pool().map_limited(&remote_reqs, max_parallel_for(cfg), hard);
        if remote_done.iter().any(|r| matches!(r, Err(e) if e == "cap")) {
            level -= 1;
            break;
        }
        let mut done: Vec<Option<Result<Option<(Judged, Option<Box<dyn Backend>>)>, String>>> = (0..items.len()).map(|_| None).collect();
        for (k, r) in local_idx.iter().zip(local_done.into_iter()) {
            done[*k] = Some(r);
        }
        for (k, r) in remote_idx.iter().zip(remote_done.into_iter()) {
            let (ni, oi, _) = items[*k];
            done[*k] = Some(match r {
                Err(e) => Err(format!("worker failed on {} after {}: {e}", cfg.ops[oi].to_json(), hist_json(&frontier[ni].hist))),
                Ok(v) => decode_judged(&v, &frontier[ni].model, &cfg.ops[oi]),
            });
        }
        let done: Vec<Result<Option<(Judged, Option<Box<dyn Backend>>)>, String>> = done.into_iter().map(|d| d.unwrap_or_else(|| Err("item not executed".into()))).collect();
        // regroup per (node, operation)
        let mut expanded: Vec<Result<Vec<Step>, String>> = (0..frontier.len()).map(|_| Ok(vec![])).collect();
        {
            let mut cur: Option<(usize, usize)> = None;
            let mut acc: Vec<(Kind, Judged, Option<Box<dyn Backend>>)> = vec![];
            let mut flush = |cur: Option<(usize, usize)>, acc: &mut Vec<(Kind, Judged, Option<Box<dyn Backend>>)>, expanded: &mut Vec<Result<Vec<Step>, String>>| {
                if let Some((ni, oi)) = cur {
                    if !acc.is_empty() {
                        let node = &frontier[ni];
                        let op = &cfg.ops[oi];
                        let exp = model_step(&node.model, op);
                        let model_next = acc.iter().find_map(|(_, j, _)| j.next.clone());
                        // successor model state: the one the backends agreed with, else the canonical ok/err state
                        let mn = model_next.unwrap_or_else(|| exp.ok.clone().unwrap_or_else(|| exp.err.first().cloned().unwrap_or_else(|| node.model.clone())));
                        if let Ok(v) = &mut expanded[ni] {
                            v.push(Step { op: op.clone(), results: std::mem::take(acc), model_next: mn });
                        }
                    }
                }
            };
            for (item, res) in items.iter().zip(done.into_iter()) {
                let key = (item.0, item.1);
                if cur != Some(key) {
                    flush(cur, &mut acc, &mut expanded);
                    cur = Some(key);
                }
                match res {
                    Err(e) => expanded[item.0] = Err(e),
                    Ok(None) => {}
                    Ok(Some((j, keep))) => acc.push((item.2, j, keep)),
                }
            }
            flush(cur, &mut acc, &mut expanded);
        }
        let mut next_frontier: Vec<Node> = vec![];
        let old = std::mem::take(&mut frontier);
        for (node, steps) in old.into_iter().zip(expanded.into_iter()) {
            let steps = steps?;
            for s in steps {
                st.transitions += 1;
                let mut alive = vec![];
                let mut live = HashMap::new();
                for (kind, j, keep) in s.results {
                    st.impl_traces += 1;
                    *st.per_backend.entry(kind.name().to_string()).or_insert(0) += 1;
                    st.outcome_classes.insert(j.outcome_class.clone());
                    findings.report_all(j.owned);
                    if j.off_model || j.next.as_ref() != Some(&s.model_next) {
                        st.off_model_pruned += 1;
                    } else {
                        alive.push(kind);
                        if let Some(b) = keep {
                            live.insert(kind, b);
                        }
                    }
                }
                if alive.is_empty() {
                    continue;
                }
                let dedup = level >= cfg.nodedup_len;
                let is_new = seen.insert(s.model_next.clone());
                if is_new {
                    st.states += 1;
                }
                if is_new || !dedup {
                    let mut h = node.hist.clone();
                    h.push(s.op);
                    if st.samples.len() < 3 || (is_new && st.samples.len() < 8 && h.len() > 2) {
                        st.samples.push(json!({"depth": cfg.depth, "history": hist_json(&h), "model_root": s.model_next.root().to_str_radix(10), "leaves_set": s.model_next.hwm}));
                    }
                    next_frontier.push(Node { model: s.model_next, hist: h, live, alive });
                }
            }
        }
        if !items.is_empty() {
            last_rate = Some(level_t0.elapsed().as_secs_f64() / items.len() as f64);
            last_items = items.len();
            last_level_secs = level_t0.elapsed().as_secs_f64();
        }
        st.max_depth = level;
        st.states_per_level.push(next_frontier.len() as u64);
        frontier = next_frontier;
    }
    if frontier.is_empty() {
        st.fixpoint = true;
    }
    if let Some(n) = frontier.last() {
        if st.samples.len() < 12 {
            st.samples.push(json!({"depth": cfg.depth, "history": hist_json(&n.hist), "note": "one of the longest histories on the last frontier"}));
        }
    }
    Ok(st)
}

fn model_to_json(t: &IdealTree) -> Value {
    json!({"leaves": t.leaves.iter().map(|(i, v)| json!([i, v.to_str_radix(10)])).collect::<Vec<_>>(),
           "written": t.written.iter().map(|(i, w)| json!([i, w])).collect::<Vec<_>>(), "hwm": t.hwm})
}
fn model_from_json(v: &Value, depth: usize) -> Option<IdealTree> {
    let mut t = IdealTree::new(depth);
    for e in v["leaves"].as_array()? {
        t.leaves.insert(e[0].as_u64()?, bdec(&e[1]));
    }
    for e in v["written"].as_array()? {
        t.written.insert(e[0].as_u64()?, e[1].as_bool()?);
    }
    t.hwm = v["hwm"].as_u64()?;
    Some(t)
}

fn tree_pool() -> &'static crate::explore::pool::Pool {
    static POOL: std::sync::OnceLock<crate::explore::pool::Pool> = std::sync::OnceLock::new();
    POOL.get_or_init(|| {
        let p = crate::explore::pool::Pool::new(ncpu(), "tree");
        // start every worker and let it load the key material once, so that the first level of a search is not
        // timed with the start-up cost in it
        let warm: Vec<Value> = (0..ncpu() * 2).map(|_| json!({"warm": true})).collect();
        let _ = p.map(&warm);
        p
    })
}

fn encode_judged(j: &Judged, pre: &IdealTree, op: &TreeOp) -> Value {
    let exp = model_step(pre, op);
    let is_ok = j.outcome_class.ends_with(":ok");
    let cands: Vec<IdealTree> = if is_ok { exp.ok.iter().cloned().collect() } else { exp.err.clone() };
    let idx = j.next.as_ref().and_then(|n| cands.iter().position(|c| c == n));
    json!({"owned": j.owned.iter().map(|d| json!({"key": d.key, "detail": d.detail, "case": d.case})).collect::<Vec<_>>(),
           "off_model": j.off_model, "class": j.outcome_class, "next": idx.map(|i| json!({"ok": is_ok, "idx": i}))})
}

fn decode_judged(v: &Value, pre: &IdealTree, op: &TreeOp) -> Result<Option<(Judged, Option<Box<dyn Backend>>)>, String> {
    if let Some(e) = v["error"].as_str() {
        return Err(e.to_string());
    }
    if v["na"] == true {
        return Ok(None);
    }
    let owned = v["owned"].as_array().cloned().unwrap_or_default().into_iter().map(|d| Discrepancy { key: d["key"].as_str().unwrap_or("").to_string(), case: d["case"].clone(), detail: d["detail"].as_str().unwrap_or("").to_string() }).collect();
    let next = if v["next"].is_null() { None } else {
        let exp = model_step(pre, op);
        let cands: Vec<IdealTree> = if v["next"]["ok"] == true { exp.ok.iter().cloned().collect() } else { exp.err.clone() };
        cands.get(v["next"]["idx"].as_u64().unwrap_or(0) as usize).cloned()
    };
    Ok(Some((Judged { owned, off_model: v["off_model"] == true, outcome_class: v["class"].as_str().unwrap_or("").to_string(), next }, None)))
}

/// `zkv --worker tree`: replays a history on a fresh backend, applies one operation, judges it
pub fn worker_tree() -> i32 {
    let seen: std::sync::Mutex<BTreeSet<(Kind, IdealTree)>> = std::sync::Mutex::new(BTreeSet::new());
    crate::explore::pool::serve(|req| {
        if req["warm"] == true {
            let _ = fresh(Kind::Rln, 1);
            std::thread::sleep(std::time::Duration::from_millis(30));
            return json!({"na": true});
        }
        let focus = match req["focus"].as_str() { Some("C06") => Focus::C06, Some("C07") => Focus::C07, Some("C08") => Focus::C08, _ => Focus::C15 };
        let kind = match req["kind"].as_str().and_then(Kind::from_name) { Some(k) => k, None => return json!({"error": "bad kind"}) };
        let depth = req["depth"].as_u64().unwrap_or(1) as usize;
        let hist: Vec<TreeOp> = req["hist"].as_array().map(|a| a.iter().filter_map(TreeOp::from_json).collect()).unwrap_or_default();
        let op = match TreeOp::from_json(&req["op"]) { Some(o) => o, None => return json!({"error": "bad op"}) };
        let (positions, full): (Vec<u64>, bool) = match req["positions"].as_array() {
            Some(a) => (a.iter().filter_map(|x| x.as_u64()).collect(), req["dense"] == true),
            None => ((0..(1u64 << depth)).collect(), true),
        };
        // the model state before the operation is sent by the explorer; the backend gets there by replay
        let model = match model_from_json(&req["model"], depth) { Some(m) => m, None => return json!({"error": "bad model"}) };
        let mut be = match fresh(kind, depth) { Ok(b) => b, Err(e) => return json!({"error": e}) };
        for h in &hist {
            if let Outcome::Panic(p) = be.apply(h) { return json!({"error": format!("replay of an on-model history panicked: {p}")}); }
        }
        let outcome = be.apply(&op);
        if outcome == Outcome::NotApplicable {
            return json!({"na": true});
        }
        let cc = CaseCtx { focus, kind, depth, positions: &positions, full, hist: &hist, binding_seen: Some(&seen) };
        let j = judge(&cc, &model, &op, &outcome, be.as_ref());
        encode_judged(&j, &model, &op)
    })
}

/// Replays one history on one backend, judging every step (used by --replay and by known findings).
pub fn run_history(focus: Focus, case: &Value) -> Vec<Discrepancy> {
    let kind = match case["backend"].as_str().and_then(Kind::from_name) { Some(k) => k, None => return vec![] };
    let depth = case["depth"].as_u64().unwrap_or(3) as usize;
    let hist: Vec<TreeOp> = case["history"].as_array().map(|a| a.iter().filter_map(TreeOp::from_json).collect()).unwrap_or_default();
    let (positions, full): (Vec<u64>, bool) = match case["positions"].as_array() {
        Some(a) => (a.iter().filter_map(|x| x.as_u64()).collect(), case["dense"] == true),
        None => ((0..(1u64 << depth)).collect(), true),
    };
    let mut out = vec![];
    let mut be = match fresh(kind, depth) { Ok(b) => b, Err(_) => return out };
    let mut model = IdealTree::new(depth);
    for (k, op) in hist.iter().enumerate() {
        let outcome = be.apply(op);
        if outcome == Outcome::NotApplicable {
            continue;
        }
        let cc = CaseCtx { focus, kind, depth, positions: &positions, full, hist: &hist[..k], binding_seen: None };
        let j = judge(&cc, &model, op, &outcome, be.as_ref());
        let stop = j.off_model || j.next.is_none();
        out.extend(j.owned);
        match j.next {
            Some(n) if !stop => model = n,
            _ => break,
        }
    }
    out
}

// ------------------------------------------------------------------------------------------
// property front ends
// ------------------------------------------------------------------------------------------

pub struct TreeProp(pub Focus);

fn merge(total: &mut ExploreStats, s: ExploreStats, label: &str, runs: &mut Vec<Value>) {
    runs.push(json!({
        "run": label, "states": s.states, "transitions": s.transitions, "traces_validated_against_impl": s.impl_traces,
        "max_history_length": s.max_depth, "fixpoint_reached": s.fixpoint, "frontier_sizes": s.states_per_level,
        "per_backend_transitions": s.per_backend, "transitions_not_expanded_because_off_model": s.off_model_pruned,
    }));
    total.states += s.states;
    total.transitions += s.transitions;
    total.impl_traces += s.impl_traces;
    total.max_depth = total.max_depth.max(s.max_depth);
    total.off_model_pruned += s.off_model_pruned;
    total.outcome_classes.extend(s.outcome_classes);
    for (k, v) in s.per_backend {
        *total.per_backend.entry(k).or_insert(0) += v;
    }
    for x in s.samples {
        if total.samples.len() < 12 {
            total.samples.push(x);
        }
    }
}

pub const POS20: [u64; 10] = [0, 1, 255, 256, (1 << 19) - 1, 1 << 19, (1 << 19) + 1, 0xAAAAA, (1 << 20) - 2, (1 << 20) - 1];

impl TreeProp {
    fn plans(&self, tier: Tier) -> Vec<ExploreCfg> {
        let f = self.0;
        let q = tier == Tier::Quick;
        let mut plans = vec![];
        let all = |d: usize| (0..(1u64 << d)).collect::<Vec<u64>>();
        let (with_batch, with_plain) = match f {
            Focus::C06 => (false, true),
            Focus::C07 => (true, true),
            Focus::C08 => (true, true),
            Focus::C15 => (true, true),
        };
        let extra: Vec<TreeOp> = if f == Focus::C15 { vec![TreeOp::ComputeRoot, TreeOp::Reopen] } else { vec![] };
        // persistent backend: a tree of another depth created over the same location (C07: proofs stay
        // consistent with the root reported; C15: the empty list)
        let extra_at = |d: usize| -> Vec<TreeOp> {
            let mut e = extra.clone();
            if matches!(f, Focus::C07 | Focus::C15) {
                e.push(TreeOp::Recreate(d as u64 + 1));
                if d > 1 {
                    e.push(TreeOp::Recreate(d as u64 - 1));
                }
            }
            e
        };
        // depth 1: two non-default values, every backend; in-memory backends to the fixpoint
        {
            let ops = alphabet(1, &[1, 2], with_batch, with_plain, &extra_at(1));
            let pl = if q { 2 } else { 12 };
            plans.push(ExploreCfg {
                focus: f, depth: 1, ops,
                backends: vec![(Kind::Full, 12), (Kind::Optimal, 12), (Kind::Pm, pl), (Kind::Rln, pl)],
                nodedup_len: 2, max_len: 12, positions: all(1), full_obs: true, allow: None, dense_after: None, label: "depth1.values-ab".into(),
            });
        }
        // depth 2: two non-default values
        {
            let ops = alphabet(2, &[1, 2], with_batch, with_plain, &extra_at(2));
            let pl = if q { 1 } else { 3 };
            plans.push(ExploreCfg {
                focus: f, depth: 2, ops,
                backends: vec![(Kind::Full, 12), (Kind::Optimal, 12), (Kind::Pm, pl), (Kind::Rln, pl)],
                nodedup_len: 2, max_len: if q { 3 } else { 12 }, positions: all(2), full_obs: true, allow: None, dense_after: None, label: "depth2.values-ab".into(),
            });
        }
        if q {
            // depth 2, reduced alphabet, so that the persistent backend and the RLN byte API see every
            // pair of operations also in the quick tier
            let c = 4u64;
            let mut ops = vec![];
            if with_plain {
                for i in [0, c - 1, c] {
                    ops.push(TreeOp::Set(i, 1));
                }
                ops.push(TreeOp::Set(1, 0));
                ops.push(TreeOp::Delete(0));
                ops.push(TreeOp::Delete(c - 1));
                ops.push(TreeOp::Append(2));
                ops.push(TreeOp::Range(0, vec![1, 2]));
                ops.push(TreeOp::Range(1, vec![1, 2]));
                ops.push(TreeOp::Range(2, vec![1]));
                ops.push(TreeOp::Range(c - 1, vec![1, 2]));
                ops.push(TreeOp::Range(3, vec![]));
                ops.push(TreeOp::Reset);
            }
            if with_batch {
                for s in [0, 1, c - 1] {
                    for n in 0..=2usize {
                        let vs: Vec<u8> = (0..n).map(|k| if k % 2 == 0 { 1 } else { 2 }).collect();
                        for r in [vec![], vec![0], vec![c - 1], vec![0, 2], vec![c], vec![0, 0, c - 1], vec![1, c - 1, 1]] {
                            if n != 0 && r.len() == 3 {
                                continue; // repeats: removal-only batches (see `alphabet`)
                            }
                            ops.push(TreeOp::Batch(s, vs.clone(), r));
                        }
                    }
                }
                ops.push(TreeOp::Init(vec![1, 2]));
                ops.push(TreeOp::Init(vec![]));
            }
            ops.extend_from_slice(&extra_at(2));
            let mut seen = BTreeSet::new();
            ops.retain(|o| seen.insert(o.clone()));
            plans.push(ExploreCfg {
                focus: f, depth: 2, ops,
                backends: vec![(Kind::Pm, 2), (Kind::Rln, 2)],
                nodedup_len: 2, max_len: 2, positions: all(2), full_obs: true, allow: None, dense_after: None, label: "depth2.reduced-alphabet.persistent".into(),
            });
        }
        // depth 2, persistent backend only: writes into and removals from positions below the leaf count interleaved with
        // flush, close + reopen and drop + reopen (no flush of its own), histories up to length 4 (thorough 5)
        if matches!(f, Focus::C15 | Focus::C07) {
            let ops = vec![TreeOp::Set(1, 1), TreeOp::Set(0, 2), TreeOp::Set(3, 1), TreeOp::Delete(1), TreeOp::Flush, TreeOp::Reopen, TreeOp::DropReopen];
            let l = if q { 4 } else { 5 };
            plans.push(ExploreCfg {
                focus: f, depth: 2, ops,
                backends: vec![(Kind::Pm, l)],
                nodedup_len: l, max_len: l, positions: all(2), full_obs: true, allow: None, dense_after: None, label: "depth2.flush-and-reopen.persistent".into(),
            });
        }
        // depth 3: one non-default value to a deeper bound, two values to a shallower one
        let ops3a = alphabet(3, &[1], with_batch, with_plain, &extra_at(3));
        plans.push(ExploreCfg {
            focus: f, depth: 3, ops: ops3a,
            backends: vec![(Kind::Full, 12), (Kind::Optimal, 12), (Kind::Pm, if q { 1 } else { 2 }), (Kind::Rln, if q { 1 } else { 2 })],
            nodedup_len: 2, max_len: if q { 2 } else { 4 },
            positions: all(3), full_obs: true, allow: None, dense_after: None, label: "depth3.value-a".into(),
        });
        let ops3b = alphabet(3, &[1, 2], with_batch, with_plain, &extra);
        // (quick tier: the two-value depth-3 plan only where the alphabet is small; the one-value plan above and the
        // two-value plans at depths 1 and 2 run everywhere)
        if !q || f == Focus::C06 {
        plans.push(ExploreCfg {
            focus: f, depth: 3, ops: ops3b,
            backends: vec![(Kind::Full, 12), (Kind::Optimal, 12), (Kind::Pm, 1), (Kind::Rln, 1)],
            nodedup_len: 2, max_len: if q { 2 } else { 3 },
            positions: all(3), full_obs: true, allow: None, dense_after: None, label: "depth3.values-ab".into(),
        });
        }
        if !q {
            // depths 4 and 5: range / batch sub-alphabet straddling every subtree boundary
            for d in [4usize, 5] {
                let c = 1u64 << d;
                let mut ops = vec![];
                if with_plain {
                    for s in 0..c {
                        for n in [1u64, 2, 3, c / 4, c / 2, c / 2 + 1] {
                            if s + n <= c {
                                ops.push(TreeOp::Range(s, (0..n).map(|k| if k % 2 == 0 { 1 } else { 2 }).collect()));
                            }
                        }
                    }
                    ops.push(TreeOp::Delete(0));
                    ops.push(TreeOp::Delete(c / 2));
                    ops.push(TreeOp::Append(1));
                }
                if with_batch {
                    for s in [0, 1, c / 2 - 1, c / 2, c - 2] {
                        for r in [vec![], vec![0], vec![c / 2], vec![c - 1], vec![0, c / 2 - 1, c - 1]] {
                            ops.push(TreeOp::Batch(s, vec![1, 2], r));
                        }
                    }
                }
                plans.push(ExploreCfg {
                    focus: f, depth: d, ops,
                    backends: vec![(Kind::Full, 2), (Kind::Optimal, 2), (Kind::Pm, 1)],
                    nodedup_len: 1, max_len: 2, positions: all(d), full_obs: true, allow: None, dense_after: None, label: format!("depth{d}.ranges"),
                });
            }
        }
        // depths 4 and 5, "rewrite" alphabet: whole-width and near-whole-width range writes over values that are
        // mostly already there, with sparse deletions / single writes in between (the shape that optimised
        // re-hashing gets wrong), histories up to length 4 on the in-memory backends
        if with_plain {
            for d in [4usize, 5] {
                if q && f == Focus::C07 && d == 4 {
                    continue; // (C07 quick: the depth-5 one only; proofs depend on the state reached, not on the route)
                }
                let c = 1u64 << d;
                let pat = |n: u64| -> Vec<u8> { (0..n).map(|k| if k % 2 == 0 { 1 } else { 2 }).collect() };
                let mut ops = vec![TreeOp::Range(0, pat(c)), TreeOp::Range(0, pat(c - 1)), TreeOp::Range(2, pat(c - 2)), TreeOp::Range(c / 2, pat(c / 2)), TreeOp::Range(0, pat(c / 2 + 2))];
                for i in [1, c / 4 + 1, c / 2 - 2, c / 2 + 1, c - 2] {
                    ops.push(TreeOp::Delete(i));
                }
                for i in [0, c / 2 - 1, c - 1] {
                    ops.push(TreeOp::Set(i, 2));
                }
                ops.push(TreeOp::Set(c / 4, 1));
                ops.push(TreeOp::Append(1));
                if with_batch {
                    ops.push(TreeOp::Batch(0, pat(c), vec![]));
                    ops.push(TreeOp::Batch(0, pat(c - 1), vec![c - 1]));
                    ops.push(TreeOp::Batch(2, pat(c - 2), vec![0, 1]));
                }
                plans.push(ExploreCfg {
                    focus: f, depth: d, ops,
                    backends: vec![(Kind::Full, 4), (Kind::Optimal, 4), (Kind::Pm, if q { 1 } else { 2 })],
                    nodedup_len: 1, max_len: if q && d == 5 && f != Focus::C06 { 3 } else { 4 }, positions: all(d), full_obs: true, allow: None, dense_after: None, label: format!("depth{d}.rewrite"),
                });
            }
        }
        // depth 10: a middle depth (1024 leaves) with positions around the 64-, 128-, 256- and 512-leaf boundaries,
        // ranges that cross them, and a range wider than two 64-leaf blocks; sparse observation on the position alphabet
        {
            let pos: Vec<u64> = vec![0, 1, 2, 63, 64, 65, 127, 128, 255, 256, 511, 512, 1022, 1023];
            let mut ops = vec![];
            if with_plain {
                for i in [0u64, 63, 64, 200, 256, 511, 1023] {
                    ops.push(TreeOp::Set(i, 1));
                }
                for i in [0u64, 64, 200, 1023] {
                    ops.push(TreeOp::Delete(i));
                }
                ops.push(TreeOp::Append(2));
                for s in [0u64, 62, 127, 254, 510, 1021] {
                    ops.push(TreeOp::Range(s, vec![1, 2, 1]));
                }
                ops.push(TreeOp::Range(0, (0..130).map(|k| if k % 2 == 0 { 1 } else { 2 }).collect()));
                ops.push(TreeOp::Range(60, (0..70).map(|k| if k % 3 == 0 { 2 } else { 1 }).collect()));
                ops.push(TreeOp::Set(1024, 1));
            }
            if with_batch {
                ops.push(TreeOp::Batch(0, vec![1, 2], vec![]));
                ops.push(TreeOp::Batch(64, vec![], vec![0, 63]));
                ops.push(TreeOp::Batch(200, vec![2], vec![200]));
                ops.push(TreeOp::Batch(0, (0..130).map(|k| if k % 2 == 0 { 1 } else { 2 }).collect(), vec![]));
            }
            ops.extend_from_slice(&extra);
            if !(q && f == Focus::C07) {
            plans.push(ExploreCfg {
                focus: f, depth: 10, ops,
                backends: vec![(Kind::Full, 3), (Kind::Optimal, 3), (Kind::Pm, 2), (Kind::Rln, if q { 1 } else { 2 })],
                nodedup_len: 1, max_len: if q { 2 } else { 3 }, positions: pos, full_obs: false, allow: None, dense_after: None, label: "depth10.boundaries".into(),
            });
            }
        }
        // depth 7: removal lists whose members are far apart (several subtrees away from each other), some of them
        // at or beyond the leaf count; depth 5: removal lists and range writes that are long runs of consecutive
        // positions (16, 17, 24, all 32), reaching past the leaf count
        if with_batch {
            let pat = |n: u64| -> Vec<u8> { (0..n).map(|k| if k % 2 == 0 { 1 } else { 2 }).collect() };
            let mut ops = vec![TreeOp::Range(0, pat(20)), TreeOp::Set(3, 1), TreeOp::Set(100, 2), TreeOp::Delete(11), TreeOp::Append(1)];
            for r in [vec![3u64, 100], vec![3, 40], vec![0, 127], vec![19, 20], vec![3, 11, 19], vec![100, 3], vec![3, 50, 100], vec![64, 96], vec![11, 11, 19], vec![3, 19, 3]] {
                ops.push(TreeOp::Batch(0, vec![], r));
            }
            if !(q && f == Focus::C07) {
            plans.push(ExploreCfg {
                focus: f, depth: 7, ops,
                backends: vec![(Kind::Full, 3), (Kind::Optimal, 3), (Kind::Pm, if q { 2 } else { 3 }), (Kind::Rln, 2)],
                nodedup_len: 1, max_len: if q && f == Focus::C07 { 2 } else { 3 }, positions: all(7), full_obs: true, allow: None, dense_after: None, label: "depth7.sparse-removals".into(),
            });
            }
            // depth 14: removal lists whose members are thousands of positions apart (trait level only: the byte-level API
            // and the FFI take removal indices as single bytes), all of them set / some of them unset or beyond the leaf count
            if !q || f == Focus::C08 {
                let d = 14usize;
                let mut ops = vec![TreeOp::Set(3, 1), TreeOp::Set(5000, 2), TreeOp::Set(12_000, 1), TreeOp::Delete(3)];
                for r in [vec![3u64, 5000], vec![3, 12_000], vec![5000, 12_000], vec![3, 5000, 12_000], vec![12_000, 3], vec![3, 9000], vec![5000, 16_383]] {
                    ops.push(TreeOp::Batch(0, vec![], r));
                }
                let pos: Vec<u64> = vec![0, 2, 3, 4, 4095, 4096, 4999, 5000, 5001, 8191, 8192, 9000, 11_999, 12_000, 12_001, 16_383];
                plans.push(ExploreCfg {
                    focus: f, depth: d, ops,
                    backends: vec![(Kind::Full, 3), (Kind::Optimal, 3), (Kind::Pm, 3)],
                    nodedup_len: 1, max_len: if q && f == Focus::C07 { 2 } else { 3 }, positions: pos, full_obs: false, allow: None, dense_after: None, label: "depth14.far-apart-removals".into(),
                });
            }
            let run = |a: u64, b: u64| -> Vec<u64> { (a..b).collect() };
            let mut ops = vec![TreeOp::Range(0, pat(4)), TreeOp::Set(30, 1), TreeOp::Append(2), TreeOp::Delete(5)];
            for (a, b) in [(0u64, 16u64), (2, 18), (0, 17), (8, 32), (0, 32), (15, 32)] {
                ops.push(TreeOp::Batch(0, vec![], run(a, b)));
            }
            ops.push(TreeOp::Batch(0, pat(16), vec![]));
            ops.push(TreeOp::Batch(3, pat(17), vec![]));
            if with_plain {
                ops.push(TreeOp::Range(0, pat(16)));
                ops.push(TreeOp::Range(3, pat(17)));
            }
            if !(q && f == Focus::C07) {
            plans.push(ExploreCfg {
                focus: f, depth: 5, ops,
                backends: vec![(Kind::Full, 3), (Kind::Optimal, 3), (Kind::Pm, if q { 2 } else { 3 }), (Kind::Rln, 2)],
                nodedup_len: 1, max_len: 3, positions: all(5), full_obs: true, allow: None, dense_after: None, label: "depth5.long-runs".into(),
            });
            }
        }
        // depth 16: ONE long operation per history (a range write, batch write or removal run of 2^k + 1 positions,
        // k up to 15: block sizes at which an implementation may switch strategy), before it one short operation that
        // puts the leaf count above or below the range, after it one short operation; sparse observation around
        // both ends of the range for leaves and proofs; thorough tier: after the long operation EVERY node of the tree (all levels) is compared
        if !q || matches!(f, Focus::C06 | Focus::C08) {
            let d = 16usize;
            let c = 1u64 << d;
            let pat = |n: u64| -> Vec<u8> { (0..n).map(|k| if k % 2 == 0 { 1 } else { 2 }).collect() };
            let lens: Vec<u64> = if q && f == Focus::C08 { vec![17, 256, 4097, 16385] } else if q { vec![17, 255, 256, 257, 4097, 16385] } else { (4..=15).flat_map(|k| [(1u64 << k) - 1, 1u64 << k, (1u64 << k) + 1]).chain([c]).collect() };
            let mut ops = vec![TreeOp::Set(40000, 1), TreeOp::Append(2)];
            if with_plain {
                ops.push(TreeOp::Range(0, pat(8)));
            } else {
                ops.push(TreeOp::Batch(0, pat(8), vec![]));
            }
            let mut pos: Vec<u64> = vec![0, 1, 2, 3, 7, 8, 9, 40000, 40001, c - 1];
            for l in &lens {
                if with_plain {
                    ops.push(TreeOp::Range(0, pat(*l)));
                    // unaligned start: the length rounded down to the power of two (an exact number of blocks that
                    // does not start on a block boundary)
                    let exact = if l.is_power_of_two() { *l } else { 1u64 << (63 - l.leading_zeros()) };
                    if 1 + exact <= c && exact > 8 {
                        ops.push(TreeOp::Range(1, pat(exact)));
                    }
                    if !q && 1 + *l <= c {
                        ops.push(TreeOp::Range(1, pat(*l)));
                    }
                }
                if with_batch {
                    ops.push(TreeOp::Batch(0, pat(*l), vec![]));
                    // (removal runs are carried out position by position by every backend: the quick tier stops at 4097)
                    if !q || *l <= 4097 {
                        ops.push(TreeOp::Batch(0, vec![], (0..*l).collect()));
                        if 3 + *l <= c {
                            ops.push(TreeOp::Batch(0, vec![], (3..3 + *l).collect()));
                        }
                    }
                }
                for x in [*l - 1, *l, *l + 1, *l + 2, *l + 3] {
                    if x < c {
                        pos.push(x);
                    }
                }
            }
            pos.sort();
            pos.dedup();
            fn long_op(o: &TreeOp) -> bool {
                match o {
                    TreeOp::Range(_, v) => v.len() > 8,
                    TreeOp::Batch(_, v, r) => v.len() > 8 || r.len() > 8,
                    _ => false,
                }
            }
            fn one_long(hist: &[TreeOp], op: &TreeOp) -> bool {
                let had = hist.iter().any(long_op);
                if long_op(op) { !had && hist.len() <= 1 } else { hist.is_empty() || had }
            }
            plans.push(ExploreCfg {
                focus: f, depth: d, ops,
                backends: vec![(Kind::Full, 3), (Kind::Optimal, 3), (Kind::Pm, if q { 2 } else { 3 }), (Kind::Rln, if q { 1 } else { 2 })],
                nodedup_len: 1, max_len: 3, positions: pos, full_obs: false, allow: Some(one_long), dense_after: if q { None } else { Some(long_op) }, label: "depth16.one-long-operation".into(),
            });
        }
        // depth 17: range / batch writes of 65 535, 65 536 and 65 537 leaves (counts around the 16-bit boundary), alone,
        // after a write that puts the leaf count above them, and followed by an append (thorough tier: the persistent backend needs about 12 s for one such write)
        if !q {
            let d = 17usize;
            let c = 1u64 << d;
            let pat = |n: u64| -> Vec<u8> { (0..n).map(|k| if k % 2 == 0 { 1 } else { 2 }).collect() };
            let mut ops = vec![TreeOp::Set(100_000, 1), TreeOp::Append(2)];
            let mut pos: Vec<u64> = vec![0, 1, 2, 100_000, 100_001, c - 1];
            for l in [65_535u64, 65_536, 65_537] {
                if with_plain {
                    ops.push(TreeOp::Range(0, pat(l)));
                } else {
                    ops.push(TreeOp::Batch(0, pat(l), vec![]));
                }
                pos.extend([l - 2, l - 1, l, l + 1]);
            }
            pos.sort();
            pos.dedup();
            fn long17(o: &TreeOp) -> bool {
                matches!(o, TreeOp::Range(_, v) | TreeOp::Batch(_, v, _) if v.len() > 8)
            }
            fn one_long17(hist: &[TreeOp], op: &TreeOp) -> bool {
                let had = hist.iter().any(long17);
                if long17(op) { !had && hist.len() <= 1 } else { hist.is_empty() || had }
            }
            plans.push(ExploreCfg {
                focus: f, depth: d, ops,
                backends: vec![(Kind::Full, 2), (Kind::Optimal, 2), (Kind::Pm, 2), (Kind::Rln, if q { 1 } else { 2 })],
                nodedup_len: 1, max_len: 2, positions: pos, full_obs: false, allow: Some(one_long17), dense_after: Some(long17), label: "depth17.sixteen-bit-counts".into(),
            });
        }
        // depth 20: position alphabet, sparse observation
        {
            let pos: Vec<u64> = POS20.to_vec();
            let c = 1u64 << 20;
            let mut ops = vec![];
            let pset: Vec<u64> = if q { vec![0, 255, (1 << 19) - 1, 1 << 19, c - 2, c - 1] } else { pos.clone() };
            // note: pmtree 2.0.2 walks every leaf to the left of a range inside the touched subtree, so a
            // range write far from offset 0 at depth 20 costs tens of seconds; the quick tier keeps range
            // starts <= 256 (plus rejected ranges, which cost nothing) and leaves the far ones to thorough
            if with_plain {
                for i in pset.iter() {
                    ops.push(TreeOp::Set(*i, 1));
                    ops.push(TreeOp::Delete(*i));
                    if *i <= 256 || !q {
                        ops.push(TreeOp::Range(*i, vec![1, 2]));
                    }
                }
                ops.push(TreeOp::Set(c, 1));
                ops.push(TreeOp::Set(1, 4));
                ops.push(TreeOp::Append(2));
                ops.push(TreeOp::Range(255, vec![1, 2, 1]));
                if !q {
                    ops.push(TreeOp::Range((1 << 19) - 1, vec![1, 2, 1]));
                }
                ops.push(TreeOp::Range(c - 1, vec![1, 2]));
            }
            if with_batch {
                ops.push(TreeOp::Batch(0, vec![1, 2], vec![]));
                ops.push(TreeOp::Batch(255, vec![1, 2], vec![0, 1]));
                ops.push(TreeOp::Batch(1, vec![1], vec![0, 255]));
                ops.push(TreeOp::Batch(c - 1, vec![1, 2], vec![0]));
                if !q {
                    ops.push(TreeOp::Batch(1 << 19, vec![1], vec![0, 255]));
                    ops.push(TreeOp::Batch(c - 1, vec![1], vec![c - 2]));
                }
            }
            ops.extend_from_slice(&extra); // C15: compute_root and close/reopen at depth 20 too
            // operations that are cheap on every backend go one level deeper in the thorough tier; the far-offset
            // range writes (tens of seconds and gigabytes each on the persistent backend) form a plan of their own
            let is_far = |o: &TreeOp| matches!(o, TreeOp::Range(s, _) | TreeOp::Batch(s, _, _) if *s > 4096 && *s < c);
            let light: Vec<TreeOp> = ops.iter().filter(|o| !is_far(o)).cloned().collect();
            let far: Vec<TreeOp> = ops.iter().filter(|o| is_far(o)).cloned().collect();
            plans.push(ExploreCfg {
                focus: f, depth: 20, ops: light,
                backends: vec![(Kind::Optimal, 3), (Kind::Pm, if q { 2 } else { 3 }), (Kind::Rln, 2)],
                nodedup_len: 1, max_len: if q { 2 } else { 3 }, positions: pos.clone(), full_obs: false, allow: None, dense_after: None, label: "depth20.positions".into(),
            });
            if !far.is_empty() {
                let mut fops = far;
                fops.push(TreeOp::Set(0, 1));
                fops.push(TreeOp::Delete(0));
                plans.push(ExploreCfg {
                    focus: f, depth: 20, ops: fops,
                    backends: vec![(Kind::Optimal, 2), (Kind::Pm, 1), (Kind::Rln, 1)],
                    nodedup_len: 1, max_len: 2, positions: pos, full_obs: false, allow: None, dense_after: None, label: "depth20.far-offset-ranges".into(),
                });
            }
        }
        plans
    }
}

impl Prop for TreeProp {
    fn id(&self) -> &'static str {
        self.0.id()
    }
    fn level(&self) -> &'static str {
        "model_checking"
    }
    fn run_case(&self, case: &Value) -> Vec<Discrepancy> {
        run_history(self.0, case)
    }
    fn explore(&self, ctx: &Ctx, findings: &Findings, ev: &mut Evidence) -> Result<(), String> {
        let mut total = ExploreStats::default();
        let mut runs = vec![];
        // wall-clock cap per plan (a cap that is hit is reported, the run is then not called exhaustive)
        let budget = std::time::Duration::from_secs(ctx.tier.pick(60, 600));
        let mut capped = vec![];
        // development aid: ZKV_PLAN=<substring> restricts the run to the plans whose label contains it
        let only = std::env::var("ZKV_PLAN").ok();
        for plan in self.plans(ctx.tier) {
            if let Some(o) = &only {
                if !plan.label.contains(o.as_str()) {
                    continue;
                }
            }
            let dl = std::time::Instant::now() + budget;
            let t0 = std::time::Instant::now();
            let s = explore(&plan, findings, Some(dl))?;
            let hit = !s.fixpoint && s.max_depth < plan.max_len;
            if hit {
                capped.push(format!("{}: wall-clock cap hit after history length {} (bound asked {})", plan.label, s.max_depth, plan.max_len));
            }
            eprintln!("[tree] {} {}: ops={} states={} transitions={} impl={} len={} fixpoint={} {:.1}s", self.0.id(), plan.label, plan.ops.len(), s.states, s.transitions, s.impl_traces, s.max_depth, s.fixpoint, t0.elapsed().as_secs_f64());
            let lbl = format!("{} (|ops|={}, all histories up to length {} executed without de-duplication, then one representative per model state up to length {})", plan.label, plan.ops.len(), plan.nodedup_len.min(plan.max_len), plan.max_len);
            merge(&mut total, s, &lbl, &mut runs);
        }
        ev.set("states", json!(total.states));
        ev.set("transitions", json!(total.transitions));
        ev.set("traces_validated_against_impl", json!(total.impl_traces));
        ev.set("max_depth", json!(total.max_depth));
        ev.set("distinct_outcomes", json!(total.outcome_classes.len()));
        ev.set("outcome_classes", json!(total.outcome_classes.iter().take(80).collect::<Vec<_>>()));
        ev.set("per_backend_transitions", json!(total.per_backend));
        ev.set("transitions_not_expanded_because_off_model", json!(total.off_model_pruned));
        ev.set("runs", json!(runs));
        ev.set("exhaustive", json!(capped.is_empty() && only.is_none()));
        if let Some(o) = &only {
            ev.set("development_plan_filter", json!(o));
        }
        ev.set("cap_hit", json!(capped));
        ev.set("evaluations", json!(total.impl_traces));
        ev.set("distinct_nontrivial", json!(total.transitions));
        ev.set("rule", json!("breadth-first search over operation histories from the empty tree; each model transition (state, op) is executed on every listed backend (in-memory backends by cloning the live object, persistent/RLN backends by replaying the history on a fresh instance) and the full observation vector (root, every leaf, leaf count, every subtree root, empty list, every membership proof) is compared with the ideal tree; model states are de-duplicated only beyond the no-dedup length; distinct_nontrivial = distinct (model state, operation) transitions"));
        for s in total.samples {
            ev.sample(s);
        }
        ev.assume("the reference Poseidon (checked against circomlib vectors) defines node hashes of the ideal tree");
        ev.assume("de-duplication on the model state assumes the observation vector exposes all property-relevant implementation state; flags above the leaf count are hidden, which is why the first levels are explored without de-duplication");
        ev.assume("values outside the alphabet {default, 7, p-1} and depths other than 1,2,3,(4,5),20 are not covered");
        Ok(())
    }
}
