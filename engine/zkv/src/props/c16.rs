//! C16 — acknowledged tree updates survive reopen; storage failures are reported.
//! Fault enumeration: every position k of an injected failure among the storage operations a
//! history performs (hook H1 in utils/src/pm_tree/sled_adapter.rs), plus crash points.
use super::tree::{model_step, scratch_dir, val, TreeOp};
use super::*;
use crate::refmodel::codec;
use crate::refmodel::field::*;
use crate::refmodel::tree::IdealTree;
use rln::pm_tree_adapter::{PmTree, PmtreeConfig};
use serde_json::json;
use std::path::PathBuf;
use std::str::FromStr;
use zerokit_utils::verif_fault as fault;
use zerokit_utils::ZerokitMerkleTree;

pub struct C16;

/// positions compared after reopen: all of them for small trees, a boundary alphabet for depth 20
fn obs_positions(depth: usize) -> Vec<u64> {
    if depth <= 4 { (0..(1u64 << depth)).collect() } else { let c = 1u64 << depth; vec![0, 1, 2, 3, 4, 5, 6, 7, 255, 256, c / 2 - 1, c / 2, c / 2 + 1, c - 2, c - 1] }
}

#[derive(Clone, Debug, PartialEq, Eq)]
pub enum Op {
    T(TreeOp),
    Meta(Vec<u8>),
    Flush,
}
impl Op {
    fn to_json(&self) -> Value {
        match self {
            Op::T(t) => t.to_json(),
            Op::Meta(m) => json!({"op":"SetMetadata","hex":hex(m)}),
            Op::Flush => json!({"op":"Flush"}),
        }
    }
    fn from_json(v: &Value) -> Option<Op> {
        match v["op"].as_str()? {
            "SetMetadata" => Some(Op::Meta(unhex(v["hex"].as_str()?))),
            "Flush" => Some(Op::Flush),
            _ => TreeOp::from_json(v).map(Op::T),
        }
    }
    /// positions whose value this operation may change
    fn targets(&self, hwm: u64) -> Vec<u64> {
        match self {
            Op::T(TreeOp::Set(i, _)) | Op::T(TreeOp::Delete(i)) => vec![*i],
            Op::T(TreeOp::Append(_)) => vec![hwm],
            Op::T(TreeOp::Range(s, vs)) => (*s..*s + vs.len() as u64).collect(),
            Op::T(TreeOp::Batch(s, vs, r)) => (*s..*s + vs.len() as u64).chain(r.iter().cloned()).collect(),
            _ => vec![],
        }
    }
}

fn alphabet() -> Vec<Op> {
    vec![
        Op::T(TreeOp::Set(0, 1)),
        Op::T(TreeOp::Set(5, 2)),
        Op::T(TreeOp::Delete(0)),
        Op::T(TreeOp::Append(1)),
        Op::T(TreeOp::Range(2, vec![1, 2])),
        Op::T(TreeOp::Batch(0, vec![2], vec![0])),
        Op::T(TreeOp::Batch(0, vec![], vec![0, 2])),
        Op::Meta(b"m".to_vec()),
        Op::Flush,
    ]
}

#[derive(Clone, Debug)]
pub struct Cfg {
    pub cache: Option<u64>,
    pub flush_ms: Option<u64>,
    pub mode: &'static str,
    pub compression: bool,
    pub depth: usize,
}
impl Cfg {
    fn json(&self, path: &PathBuf) -> String {
        json!({"path": path.to_str().unwrap(), "temporary": false, "cache_capacity": self.cache, "flush_every_ms": self.flush_ms, "mode": self.mode, "use_compression": self.compression}).to_string()
    }
    fn name(&self) -> String {
        format!("cache={:?},flush_ms={:?},mode={},compression={}", self.cache, self.flush_ms, self.mode, self.compression)
    }
    fn default_cfg() -> Cfg {
        Cfg { cache: Some(1 << 20), flush_ms: None, mode: "HighThroughput", compression: false, depth: 3 }
    }
}
fn cfg_from(v: &Value) -> Cfg {
    Cfg { cache: v["cache"].as_u64(), flush_ms: v["flush_ms"].as_u64(), mode: if v["mode"] == "LowSpace" { "LowSpace" } else { "HighThroughput" }, compression: v["compression"].as_bool().unwrap_or(false), depth: v["depth"].as_u64().unwrap_or(3) as usize }
}

fn open(path: &PathBuf, cfg: &Cfg) -> Result<PmTree, String> {
    let c = PmtreeConfig::from_str(&cfg.json(path)).map_err(|e| e.to_string())?;
    PmTree::new(cfg.depth, Fr::from(0u64), c).map_err(|e| e.to_string())
}

#[derive(Clone, Debug, PartialEq, Eq)]
enum R {
    Ok,
    Err(String),
    Panic(String),
}

fn apply(t: &mut PmTree, op: &Op) -> R {
    let r = guard(|| -> Result<(), String> {
        let e = |r: color_eyre::Result<()>| r.map_err(|e| e.to_string());
        let frs = |vs: &Vec<u8>| vs.iter().map(|v| to_fr(&val(*v))).collect::<Vec<_>>();
        match op {
            Op::T(TreeOp::Set(i, v)) => e(t.set(*i as usize, to_fr(&val(*v)))),
            Op::T(TreeOp::Delete(i)) => e(t.delete(*i as usize)),
            Op::T(TreeOp::Append(v)) => e(t.update_next(to_fr(&val(*v)))),
            Op::T(TreeOp::Range(s, vs)) => e(t.set_range(*s as usize, frs(vs).into_iter())),
            Op::T(TreeOp::Batch(s, vs, r)) => e(t.override_range(*s as usize, frs(vs).into_iter(), r.iter().map(|x| *x as usize).collect::<Vec<_>>().into_iter())),
            Op::T(_) => Ok(()),
            Op::Meta(m) => e(t.set_metadata(m)),
            Op::Flush => e(t.close_db_connection()),
        }
    });
    match r {
        Ok(Ok(())) => R::Ok,
        Ok(Err(e)) => R::Err(e),
        Err(p) => R::Panic(p),
    }
}

struct Snapshot {
    root: BigUint,
    leaves: Vec<BigUint>,
    hwm: u64,
    meta: Vec<u8>,
}
fn observe(t: &PmTree, depth: usize) -> Result<Snapshot, String> {
    guard(|| Snapshot {
        root: from_fr(&t.root()),
        leaves: obs_positions(depth).iter().map(|i| t.get(*i as usize).map(|f| from_fr(&f)).unwrap_or_else(|_| pow2(255))).collect(),
        hwm: t.leaves_set() as u64,
        meta: t.metadata().unwrap_or_else(|_| b"<error>".to_vec()),
    })
}

/// model of acknowledged state: ideal tree + metadata
#[derive(Clone)]
struct Model {
    tree: IdealTree,
    meta: Vec<u8>,
}
impl Model {
    fn step(&mut self, op: &Op) {
        match op {
            Op::T(t) => {
                if let Some(n) = model_step(&self.tree, t).ok {
                    self.tree = n;
                }
            }
            Op::Meta(m) => self.meta = m.clone(),
            Op::Flush => {}
        }
    }
}

fn case_json(kind: &str, hist: &[Op], cfg: &Cfg, k: Option<u64>) -> Value {
    json!({"kind": kind, "history": hist.iter().map(|o| o.to_json()).collect::<Vec<_>>(), "cfg": {"cache": cfg.cache, "flush_ms": cfg.flush_ms, "mode": cfg.mode, "compression": cfg.compression, "depth": cfg.depth}, "k": k})
}

/// keys of the adapter-as-a-map exploration: all zero, all ones, and for every byte position the keys that differ from
/// all-zero in that byte only (values 1 and 0x80), plus keys equal in their low 1, 2, 4 bytes and different above
fn map_keys() -> Vec<[u8; 8]> {
    let mut v: Vec<[u8; 8]> = vec![[0; 8], [0xff; 8]];
    for b in 0..8 {
        for x in [1u8, 0x80] {
            let mut k = [0u8; 8];
            k[b] = x;
            v.push(k);
        }
    }
    // (pmtree's node keys are 8-byte big-endian numbers: these are node numbers 2^32 + 5, 5, 2^16 + 5, 2^40 + 5)
    for n in [(1u64 << 32) + 5, 5, (1 << 16) + 5, (1 << 40) + 5, (1 << 32) + (1 << 16) + 5] {
        v.push(n.to_be_bytes());
        v.push(n.to_le_bytes());
    }
    v.sort();
    v.dedup();
    v
}

impl C16 {
    /// (0) the storage adapter is a map: after single and batch writes of distinct values under the exploration keys
    /// (any order, any split between single and batch writes) every key reads back its own last value, also after flush
    /// and reopen; a key never written reads as absent
    fn adapter_map(&self, order: usize, split: usize) -> Vec<Discrepancy> {
        use zerokit_utils::pm_tree::pmtree::Database;
        use zerokit_utils::pm_tree::SledDB;
        let case = json!({"kind": "adapter-map", "order": order, "split": split});
        let mut out = vec![];
        let path = scratch_dir("c16m");
        let r = guard(|| -> Result<Vec<String>, String> {
            fault::disarm();
            let mut bad = vec![];
            let mut keys = map_keys();
            match order {
                1 => keys.reverse(),
                2 => { let n = keys.len(); keys.rotate_left(n / 2); }
                _ => {}
            }
            let mk = || -> Result<zerokit_utils::pm_tree::Config, String> { Ok(zerokit_utils::pm_tree::Config::new().temporary(false).path(&path).cache_capacity(1 << 20)) };
            let mut db = SledDB::new(mk()?).map_err(|e| format!("{e:?}"))?;
            let val = |k: &[u8; 8], gen: u8| -> Vec<u8> { let mut v = k.to_vec(); v.push(gen); v.extend_from_slice(b"value"); v };
            // first generation: keys [..split] one by one, the rest as one batch
            for k in keys.iter().take(split) {
                db.put(*k, val(k, 1)).map_err(|e| format!("{e:?}"))?;
            }
            let batch: std::collections::HashMap<[u8; 8], Vec<u8>> = keys.iter().skip(split).map(|k| (*k, val(k, 1))).collect();
            if !batch.is_empty() {
                db.put_batch(batch).map_err(|e| format!("{e:?}"))?;
            }
            let never = [0x55u8; 8];
            let check = |db: &SledDB, gen_of: &dyn Fn(usize) -> u8, when: &str, bad: &mut Vec<String>| {
                for (i, k) in keys.iter().enumerate() {
                    match db.get(*k) {
                        Ok(Some(v)) if v == val(k, gen_of(i)) => {}
                        Ok(other) => bad.push(format!("{when}: key {} reads {:?}, its own value was written last", hex(k), other.map(|v| hex(&v)))),
                        Err(e) => bad.push(format!("{when}: key {}: {e:?}", hex(k))),
                    }
                }
                if !matches!(db.get(never), Ok(None)) {
                    bad.push(format!("{when}: a key that was never written is present"));
                }
            };
            check(&db, &|_| 1, "after the first writes", &mut bad);
            // second generation for every other key (single writes), then flush and reopen
            for (i, k) in keys.iter().enumerate() {
                if i % 2 == 0 {
                    db.put(*k, val(k, 2)).map_err(|e| format!("{e:?}"))?;
                }
            }
            check(&db, &|i| if i % 2 == 0 { 2 } else { 1 }, "after overwriting every other key", &mut bad);
            db.close().map_err(|e| format!("{e:?}"))?;
            drop(db);
            let db2 = SledDB::load(mk()?).map_err(|e| format!("reopen: {e:?}"))?;
            check(&db2, &|i| if i % 2 == 0 { 2 } else { 1 }, "after flush and reopen", &mut bad);
            Ok(bad)
        });
        let _ = std::fs::remove_dir_all(&path);
        match r {
            Err(pn) => out.push(Discrepancy { key: "C16/adapter-map/panic".into(), case, detail: pn }),
            Ok(Err(e)) => out.push(Discrepancy { key: "C16/adapter-map/error".into(), case, detail: e }),
            Ok(Ok(bad)) => {
                if let Some(b) = bad.first() {
                    out.push(Discrepancy { key: "C16/adapter-map/wrong-value".into(), case, detail: format!("{b} ({} mismatches)", bad.len()) });
                }
            }
        }
        out
    }
    /// (1b) no fault: history, flush, drop, then a tree of ANOTHER depth is requested at the same location.
    /// Refusing is fine; if a tree is handed back it must be the stored one (same root, leaves, leaf
    /// count, metadata): the location holds acknowledged updates.
    fn reopen_other_depth(&self, hist: &[Op], cfg: &Cfg, d2: usize) -> Vec<Discrepancy> {
        // d2 == 0: the depth stays, but between closing and reopening other configuration strings naming the same
        // location are parsed (accepted or refused, never opened): parsing must leave the stored tree alone
        let parse_only = d2 == 0;
        let d2 = if parse_only { cfg.depth } else { d2 };
        let mut out = vec![];
        let mut case = case_json("reopen-other-depth", hist, cfg, None);
        case["requested_depth"] = json!(if parse_only { 0 } else { d2 });
        let path = scratch_dir("c16d");
        let res = (|| -> Result<(), String> {
            fault::disarm();
            let mut t = open(&path, cfg)?;
            let mut m = Model { tree: IdealTree::new(cfg.depth), meta: vec![] };
            for op in hist {
                match apply(&mut t, op) {
                    R::Ok => m.step(op),
                    R::Err(_) => {}
                    R::Panic(p) => return Err(format!("panic in {}: {p}", op.to_json())),
                }
            }
            if apply(&mut t, &Op::Flush) != R::Ok {
                return Err("final flush failed without an injected fault".into());
            }
            let before = observe(&t, cfg.depth)?;
            drop(t);
            if parse_only {
                let pth = path.to_str().unwrap();
                for j in [
                    json!({"path": pth, "temporary": true}),
                    json!({"path": pth, "temporary": true, "cache_capacity": 1024, "mode": "LowSpace"}),
                    json!({"path": pth, "temporary": false, "mode": "NoSuchMode"}),
                    json!({"path": pth, "temporary": false, "cache_capacity": -1}),
                    json!({"path": pth, "temporary": "yes"}),
                    json!({"path": pth}),
                ] {
                    let _ = guard(|| PmtreeConfig::from_str(&j.to_string()).map(|_| ()));
                }
                let _ = guard(|| PmtreeConfig::from_str(&format!("{{\"path\": \"{pth}\", \"temporary\": tru")).map(|_| ()));
            }
            let cfg2 = Cfg { depth: d2, ..cfg.clone() };
            let t2 = match guard(|| open(&path, &cfg2)) {
                Err(p) => {
                    out.push(Discrepancy { key: "C16/reopen-other-depth/panic".into(), case: case.clone(), detail: p });
                    return Ok(());
                }
                Ok(Err(e)) if parse_only => {
                    out.push(Discrepancy { key: "C16/reopen-after-config-parsing/cannot-reopen".into(), case: case.clone(), detail: format!("after other configuration strings for the location were parsed, the stored tree does not open: {e}") });
                    return Ok(());
                }
                Ok(Err(_)) => return Ok(()), // refused
                Ok(Ok(t2)) => t2,
            };
            let key = |s: &str| if parse_only { format!("C16/reopen-after-config-parsing/{s}") } else { format!("C16/reopen-other-depth/{s}") };
            let after = match observe(&t2, cfg.depth) {
                Ok(a) => a,
                Err(p) => {
                    out.push(Discrepancy { key: key("panic"), case: case.clone(), detail: format!("reading the tree handed back: {p}") });
                    return Ok(());
                }
            };
            if after.root != before.root || after.root != m.tree.root() {
                out.push(Discrepancy { key: key("root-differs"), case: case.clone(), detail: format!("depth {} stored, depth {d2} requested: root before close {}, of the tree handed back {}", cfg.depth, before.root, after.root) });
            }
            let want: Vec<BigUint> = obs_positions(cfg.depth).iter().map(|i| m.tree.leaf(*i)).collect();
            if after.leaves != want {
                out.push(Discrepancy { key: key("leaves-differ"), case: case.clone(), detail: format!("depth {} stored, depth {d2} requested: leaves {:?}, acknowledged {:?}", cfg.depth, after.leaves, want) });
            }
            if after.hwm != m.tree.hwm {
                out.push(Discrepancy { key: key("leaf-count-differs"), case: case.clone(), detail: format!("leaves_set {} expected {}", after.hwm, m.tree.hwm) });
            }
            if after.meta != m.meta {
                out.push(Discrepancy { key: key("metadata-differs"), case: case.clone(), detail: format!("metadata {:?} expected {:?}", after.meta, m.meta) });
            }
            Ok(())
        })();
        fault::disarm();
        let _ = std::fs::remove_dir_all(&path);
        if let Err(e) = res {
            out.push(Discrepancy { key: "C16/reopen-other-depth/harness".into(), case, detail: e });
        }
        out
    }
    /// (1) no fault: history, flush, drop, reopen, compare; then one more step from the reopened tree
    fn reopen(&self, hist: &[Op], cfg: &Cfg) -> (Vec<Discrepancy>, u64) {
        let mut out = vec![];
        let case = case_json("reopen", hist, cfg, None);
        let path = scratch_dir("c16");
        let mut ops_seen = 0u64;
        let res = (|| -> Result<(), String> {
            fault::disarm();
            let mut t = open(&path, cfg)?;
            let mut m = Model { tree: IdealTree::new(cfg.depth), meta: vec![] };
            for op in hist {
                match apply(&mut t, op) {
                    R::Ok => m.step(op),
                    R::Err(_) => {}
                    R::Panic(p) => return Err(format!("panic in {}: {p}", op.to_json())),
                }
            }
            if apply(&mut t, &Op::Flush) != R::Ok {
                return Err("final flush failed without an injected fault".into());
            }
            ops_seen = fault::ops();
            let before = observe(&t, cfg.depth)?;
            drop(t);
            let t2 = open(&path, cfg).map_err(|e| format!("reopen failed: {e}"))?;
            let after = observe(&t2, cfg.depth)?;
            let key = |s: &str| format!("C16/reopen/{s}");
            if after.root != before.root || after.root != m.tree.root() {
                out.push(Discrepancy { key: key("root-differs"), case: case.clone(), detail: format!("root before close {}, after reopen {}, ideal {}", before.root, after.root, m.tree.root()) });
            }
            let want: Vec<BigUint> = obs_positions(cfg.depth).iter().map(|i| m.tree.leaf(*i)).collect();
            if after.leaves != want {
                out.push(Discrepancy { key: key("leaves-differ"), case: case.clone(), detail: format!("leaves after reopen {:?}, acknowledged {:?}", after.leaves, want) });
            }
            if after.hwm != m.tree.hwm {
                out.push(Discrepancy { key: key("leaf-count-differs"), case: case.clone(), detail: format!("leaves_set after reopen {} expected {}", after.hwm, m.tree.hwm) });
            }
            if after.meta != m.meta {
                out.push(Discrepancy { key: key("metadata-differs"), case: case.clone(), detail: format!("metadata after reopen {:?} expected {:?}", after.meta, m.meta) });
            }
            // the reopened tree keeps behaving like the ideal tree
            let mut t2 = t2;
            for op in [Op::T(TreeOp::Set(1, 2)), Op::T(TreeOp::Append(2)), Op::T(TreeOp::Delete(5)), Op::T(TreeOp::Range(6, vec![1, 1]))] {
                let r = apply(&mut t2, &op);
                let exp = if let Op::T(t) = &op { model_step(&m.tree, t) } else { unreachable!() };
                match (&r, &exp.ok) {
                    (R::Ok, Some(n)) => m.tree = n.clone(),
                    (R::Err(_), _) if !exp.err.is_empty() => {}
                    (R::Panic(p), _) => out.push(Discrepancy { key: key("panic-after-reopen"), case: case.clone(), detail: format!("{}: {p}", op.to_json()) }),
                    _ => out.push(Discrepancy { key: key("wrong-result-after-reopen"), case: case.clone(), detail: format!("{} returned {:?}", op.to_json(), r) }),
                }
                let o = observe(&t2, cfg.depth)?;
                let want: Vec<BigUint> = obs_positions(cfg.depth).iter().map(|i| m.tree.leaf(*i)).collect();
                if o.root != m.tree.root() || o.leaves != want || o.hwm != m.tree.hwm {
                    out.push(Discrepancy { key: key("diverges-after-reopen"), case: case.clone(), detail: format!("after {} on the reopened tree: root/leaves/leaf count differ from the ideal tree", op.to_json()) });
                    break;
                }
            }
            Ok(())
        })();
        if let Err(e) = res {
            out.push(Discrepancy { key: "C16/reopen/error".into(), case, detail: e });
        }
        let _ = std::fs::remove_dir_all(&path);
        (out, ops_seen)
    }

    /// (2) the k-th storage operation of the history fails
    fn faulted(&self, hist: &[Op], cfg: &Cfg, k: u64) -> Vec<Discrepancy> {
        let mut out = vec![];
        let case = case_json("fault", hist, cfg, Some(k));
        let path = scratch_dir("c16f");
        let res = (|| -> Result<(), String> {
            fault::disarm();
            let mut t = open(&path, cfg)?;
            let mut m = Model { tree: IdealTree::new(cfg.depth), meta: vec![] };
            fault::arm(k, fault::MODE_ERROR_ONCE);
            // positions / metadata whose value is not determined after the failed operation
            let mut failed_targets: Vec<u64> = vec![];
            let mut meta_uncertain = false;
            let mut fired_at: Option<usize> = None;
            for (i, op) in hist.iter().enumerate() {
                if fired_at.is_some() {
                    // after the failure the history goes on with the operations whose effect does not depend on
                    // the undetermined part (explicit positions, metadata, flush): what they acknowledge must
                    // survive too, and a retry must really write
                    let independent = matches!(op, Op::T(TreeOp::Set(..)) | Op::T(TreeOp::Range(..)) | Op::Meta(_) | Op::Flush);
                    if !independent {
                        continue;
                    }
                    match apply(&mut t, op) {
                        R::Ok => {
                            m.step(op);
                            let hw = m.tree.hwm;
                            failed_targets.retain(|p| !op.targets(hw).contains(p));
                            if matches!(op, Op::Meta(_)) {
                                meta_uncertain = false;
                            }
                        }
                        R::Err(_) => {}
                        R::Panic(p) => out.push(Discrepancy { key: format!("C16/fault/{}/panic-after-failure", opname(op)), case: case.clone(), detail: format!("{} after a failed operation: {p}", op.to_json()) }),
                    }
                    continue;
                }
                let before = fault::fired();
                let r = apply(&mut t, op);
                let fired = fault::fired() > before;
                if fired {
                    fired_at = Some(i);
                    fault::disarm();
                    match &r {
                        R::Err(_) => {}
                        R::Ok => out.push(Discrepancy { key: format!("C16/fault/{}/failure-not-reported", opname(op)), case: case.clone(), detail: format!("storage operation {k} failed during {} but the call returned Ok", op.to_json()) }),
                        R::Panic(p) => out.push(Discrepancy { key: format!("C16/fault/{}/panic", opname(op)), case: case.clone(), detail: format!("storage operation {k} failed during {}: panic {p}", op.to_json()) }),
                    }
                    failed_targets = op.targets(m.tree.hwm);
                    meta_uncertain = matches!(op, Op::Meta(_));
                    continue;
                }
                match r {
                    R::Ok => m.step(op),
                    R::Err(_) => {}
                    R::Panic(p) => return Err(format!("panic without a fault in {}: {p}", op.to_json())),
                }
            }
            fault::disarm();
            if fired_at.is_none() {
                return Ok(()); // k beyond the operations of this history
            }
            // a successful flush, then close and reopen: everything acknowledged must be there
            if apply(&mut t, &Op::Flush) != R::Ok {
                return Err("flush after the failed operation failed although no fault is armed".into());
            }
            let before_close = observe(&t, cfg.depth)?;
            drop(t);
            let t2 = match guard(|| open(&path, cfg)) {
                Ok(Ok(t)) => t,
                Ok(Err(e)) => { out.push(Discrepancy { key: "C16/fault/reopen-fails".into(), case: case.clone(), detail: e }); return Ok(()); }
                Err(p) => { out.push(Discrepancy { key: "C16/fault/reopen-panics".into(), case: case.clone(), detail: p }); return Ok(()); }
            };
            let after = observe(&t2, cfg.depth)?;
            let fop = opname(&hist[fired_at.unwrap()]);
            for (k, i) in obs_positions(cfg.depth).iter().cloned().enumerate() {
                if failed_targets.contains(&i) {
                    continue;
                }
                if after.leaves[k] != m.tree.leaf(i) {
                    out.push(Discrepancy { key: format!("C16/fault/{fop}/acknowledged-update-lost"), case: case.clone(), detail: format!("position {i}: acknowledged value {} but {} after reopen (fault during {})", m.tree.leaf(i), after.leaves[k], hist[fired_at.unwrap()].to_json()) });
                    break;
                }
            }
            if after.hwm < m.tree.hwm {
                out.push(Discrepancy { key: format!("C16/fault/{fop}/leaf-count-lost"), case: case.clone(), detail: format!("leaves_set {} after reopen, {} were acknowledged", after.hwm, m.tree.hwm) });
            }
            if !meta_uncertain && after.meta != m.meta {
                out.push(Discrepancy { key: format!("C16/fault/{fop}/metadata-lost"), case: case.clone(), detail: format!("metadata {:?} after reopen, {:?} acknowledged", after.meta, m.meta) });
            }
            // whatever the tree showed before closing (after the successful flush) is what reopening must show
            if before_close.leaves != after.leaves {
                out.push(Discrepancy { key: format!("C16/fault/{fop}/leaves-before-close-differ-after-reopen"), case: case.clone(), detail: format!("leaves before closing {:?}, after reopening {:?}", before_close.leaves, after.leaves) });
            }
            if before_close.meta != after.meta {
                out.push(Discrepancy { key: format!("C16/fault/{fop}/metadata-before-close-differs-after-reopen"), case: case.clone(), detail: format!("metadata() before closing {:?}, after reopening {:?}", before_close.meta, after.meta) });
            }
            if before_close.root != after.root || before_close.hwm != after.hwm {
                out.push(Discrepancy { key: format!("C16/fault/{fop}/root-or-leaf-count-before-close-differs-after-reopen"), case: case.clone(), detail: format!("root {} / leaf count {} before closing, root {} / leaf count {} after reopening", before_close.root, before_close.hwm, after.root, after.hwm) });
            }
            Ok(())
        })();
        fault::disarm();
        if let Err(e) = res {
            out.push(Discrepancy { key: "C16/fault/error".into(), case, detail: e });
        }
        let _ = std::fs::remove_dir_all(&path);
        out
    }

    /// reopen while the previous instance still holds the storage lock for `hold_ms` (sled itself
    /// releases the lock a moment after the handle is dropped, so this happens in ordinary use):
    /// the acknowledged state must be there. Returns the time the open took.
    pub fn locked_reopen(&self, hist: &[Op], cfg: &Cfg, hold_ms: u64) -> (Vec<Discrepancy>, f64) {
        let mut out = vec![];
        let mut case = case_json("locked-reopen", hist, cfg, Some(hold_ms));
        case["hold_ms"] = json!(hold_ms);
        let path = scratch_dir("c16l");
        let mut took = 0.0;
        let res = (|| -> Result<(), String> {
            fault::disarm();
            let mut t = open(&path, cfg)?;
            let mut m = Model { tree: IdealTree::new(cfg.depth), meta: vec![] };
            for op in hist {
                if apply(&mut t, op) == R::Ok {
                    m.step(op);
                }
            }
            if apply(&mut t, &Op::Flush) != R::Ok {
                return Err("flush failed".into());
            }
            let holder = std::thread::spawn(move || {
                std::thread::sleep(std::time::Duration::from_millis(hold_ms));
                drop(t);
            });
            let t0 = std::time::Instant::now();
            let r = guard(|| open(&path, cfg));
            took = t0.elapsed().as_secs_f64();
            let _ = holder.join();
            let t2 = match r {
                Ok(Ok(t)) => t,
                Ok(Err(e)) => { out.push(Discrepancy { key: "C16/locked-reopen/open-fails".into(), case: case.clone(), detail: e }); return Ok(()); }
                Err(p) => { out.push(Discrepancy { key: "C16/locked-reopen/panic".into(), case: case.clone(), detail: p }); return Ok(()); }
            };
            let after = observe(&t2, cfg.depth)?;
            let want: Vec<BigUint> = obs_positions(cfg.depth).iter().map(|i| m.tree.leaf(*i)).collect();
            if after.root != m.tree.root() || after.leaves != want || after.hwm != m.tree.hwm || after.meta != m.meta {
                out.push(Discrepancy { key: "C16/locked-reopen/state-lost".into(), case: case.clone(), detail: format!("the tree was opened while the previous instance held the storage lock for {hold_ms} ms: leaves {:?} (acknowledged {:?}), leaf count {} (acknowledged {})", after.leaves, want, after.hwm, m.tree.hwm) });
            }
            Ok(())
        })();
        if let Err(e) = res {
            out.push(Discrepancy { key: "C16/locked-reopen/error".into(), case, detail: e });
        }
        let _ = std::fs::remove_dir_all(&path);
        (out, took)
    }

    /// failure while the tree is being created: must be reported, a later open must not crash
    fn creation_fault(&self, cfg: &Cfg, k: u64) -> Vec<Discrepancy> {
        let mut out = vec![];
        let case = case_json("creation-fault", &[], cfg, Some(k));
        let path = scratch_dir("c16c");
        fault::arm(k, fault::MODE_ERROR_ONCE);
        let r = guard(|| open(&path, cfg));
        let fired = fault::fired() > 0;
        fault::disarm();
        if fired {
            match r {
                Ok(Err(_)) => {}
                Ok(Ok(_)) => out.push(Discrepancy { key: "C16/fault/create/failure-not-reported".into(), case: case.clone(), detail: format!("storage operation {k} failed while creating the tree but creation returned Ok") }),
                Err(p) => out.push(Discrepancy { key: "C16/fault/create/panic".into(), case: case.clone(), detail: p }),
            }
            if let Err(p) = guard(|| open(&path, cfg).map(|_| ())) {
                out.push(Discrepancy { key: "C16/fault/create/later-open-panics".into(), case, detail: p });
            }
        }
        let _ = std::fs::remove_dir_all(&path);
        out
    }

    /// (3) crash: a child process runs the whole history, records every acknowledged operation in a side
    /// file, and aborts at the k-th storage operation after creation. Everything acknowledged up to the last
    /// acknowledged flush must be there after recovery (positions touched afterwards are undetermined).
    fn crash(&self, hist: &[Op], cfg: &Cfg, k: u64) -> Result<Vec<Discrepancy>, String> {
        let mut out = vec![];
        let case = case_json("crash", hist, cfg, Some(k));
        let path = scratch_dir("c16x");
        let ack = scratch_dir("c16ack");
        let exe = crate::explore::self_exe()?;
        let arg = json!({"path": path.to_str().unwrap(), "ack": ack.to_str().unwrap(), "case": case}).to_string();
        let st = std::process::Command::new(exe).args(["--worker", "crash", &arg]).stdout(std::process::Stdio::null()).stderr(std::process::Stdio::null()).status().map_err(|e| e.to_string())?;
        let acked: Vec<usize> = std::fs::read_to_string(&ack).unwrap_or_default().lines().filter_map(|l| l.trim().parse().ok()).collect();
        let _ = std::fs::remove_file(&ack);
        let last_flush = acked.iter().cloned().filter(|i| hist.get(*i) == Some(&Op::Flush)).max();
        let mut m = Model { tree: IdealTree::new(cfg.depth), meta: vec![] };
        let mut excluded: Vec<u64> = vec![];
        let mut meta_touched = false;
        if let Some(f) = last_flush {
            for (i, op) in hist.iter().enumerate() {
                if i <= f {
                    if acked.contains(&i) {
                        m.step(op);
                    }
                } else {
                    // may or may not have reached storage before the crash
                    break;
                }
            }
            // positions the later operations may touch (followed on a copy of the model as if they all succeed)
            let mut fwd = m.clone();
            for op in hist.iter().skip(f + 1) {
                excluded.extend(op.targets(fwd.tree.hwm));
                if matches!(op, Op::Meta(_)) {
                    meta_touched = true;
                }
                fwd.step(op);
            }
        }
        match guard(|| open(&path, cfg)) {
            Err(p) => out.push(Discrepancy { key: "C16/crash/reopen-panics".into(), case: case.clone(), detail: p }),
            Ok(Err(e)) => out.push(Discrepancy { key: "C16/crash/reopen-fails".into(), case: case.clone(), detail: format!("child exit {:?}: {e}", st.code()) }),
            Ok(Ok(t)) => {
                if last_flush.is_some() {
                    let after = observe(&t, cfg.depth)?;
                    for (k, i) in obs_positions(cfg.depth).iter().cloned().enumerate() {
                        if !excluded.contains(&i) && after.leaves[k] != m.tree.leaf(i) {
                            out.push(Discrepancy { key: "C16/crash/flushed-update-lost".into(), case: case.clone(), detail: format!("position {i}: {} was acknowledged and flushed before the crash, {} after recovery (acknowledged operations {:?}, crash at storage operation {k})", m.tree.leaf(i), after.leaves[k], acked) });
                            break;
                        }
                    }
                    if after.hwm < m.tree.hwm {
                        out.push(Discrepancy { key: "C16/crash/leaf-count-lost".into(), case: case.clone(), detail: format!("leaf count {} after recovery, {} was flushed", after.hwm, m.tree.hwm) });
                    }
                    if !meta_touched && after.meta != m.meta {
                        out.push(Discrepancy { key: "C16/crash/metadata-lost".into(), case: case.clone(), detail: format!("{:?} vs {:?}", after.meta, m.meta) });
                    }
                }
            }
        }
        let _ = std::fs::remove_dir_all(&path);
        Ok(out)
    }

    /// RLN level: RLN::new on an existing path
    fn rln_reopen(&self, hist: &[Op]) -> Vec<Discrepancy> {
        use rln::public::RLN;
        use std::io::Cursor;
        let mut out = vec![];
        let cfg = Cfg::default_cfg();
        let case = case_json("rln-reopen", hist, &cfg, None);
        let path = scratch_dir("c16r");
        let conf = json!({"tree_config": serde_json::from_str::<Value>(&cfg.json(&path)).unwrap()}).to_string();
        let r = guard(|| -> Result<(), String> {
            let mut rln = RLN::new(cfg.depth, Cursor::new(conf.clone())).map_err(|e| e.to_string())?;
            let mut m = Model { tree: IdealTree::new(cfg.depth), meta: vec![] };
            for op in hist {
                let ok = match op {
                    Op::T(TreeOp::Set(i, v)) => rln.set_leaf(*i as usize, Cursor::new(codec::fr(&val(*v)))).is_ok(),
                    Op::T(TreeOp::Delete(i)) => rln.delete_leaf(*i as usize).is_ok(),
                    Op::T(TreeOp::Append(v)) => rln.set_next_leaf(Cursor::new(codec::fr(&val(*v)))).is_ok(),
                    Op::T(TreeOp::Range(s, vs)) => rln.set_leaves_from(*s as usize, Cursor::new(codec::vec_fr(&vs.iter().map(|v| val(*v)).collect::<Vec<_>>()))).is_ok(),
                    Op::Meta(mm) => rln.set_metadata(mm).is_ok(),
                    Op::Flush => rln.flush().is_ok(),
                    _ => false,
                };
                if ok {
                    m.step(op);
                }
            }
            rln.flush().map_err(|e| e.to_string())?;
            drop(rln);
            let mut rln = RLN::new(cfg.depth, Cursor::new(conf.clone())).map_err(|e| format!("RLN::new on the existing location failed: {e}"))?;
            let mut b = Cursor::new(Vec::<u8>::new());
            rln.get_root(&mut b).map_err(|e| e.to_string())?;
            let mut bad = vec![];
            if b.get_ref()[..] != codec::fr(&m.tree.root())[..] {
                bad.push("root");
            }
            for (k, i) in obs_positions(cfg.depth).iter().cloned().enumerate() {
                let mut b = Cursor::new(Vec::<u8>::new());
                rln.get_leaf(i as usize, &mut b).map_err(|e| e.to_string())?;
                if b.get_ref()[..] != codec::fr(&m.tree.leaf(i))[..] {
                    bad.push("leaf");
                    break;
                }
            }
            if rln.leaves_set() as u64 != m.tree.hwm {
                bad.push("leaf count");
            }
            let mut b = Cursor::new(Vec::<u8>::new());
            rln.get_metadata(&mut b).map_err(|e| e.to_string())?;
            if b.get_ref()[..] != m.meta[..] {
                bad.push("metadata");
            }
            if !bad.is_empty() {
                return Err(format!("after RLN::new on the existing location these differ: {:?}", bad));
            }
            Ok(())
        });
        match r {
            Ok(Ok(())) => {}
            Ok(Err(e)) => out.push(Discrepancy { key: "C16/rln-reopen/differs".into(), case, detail: e }),
            Err(p) => out.push(Discrepancy { key: "C16/rln-reopen/panic".into(), case, detail: p }),
        }
        let _ = std::fs::remove_dir_all(&path);
        out
    }
}

fn opname(op: &Op) -> &'static str {
    match op {
        Op::T(TreeOp::Set(..)) => "set",
        Op::T(TreeOp::Delete(..)) => "delete",
        Op::T(TreeOp::Append(..)) => "append",
        Op::T(TreeOp::Range(..)) => "write_range",
        Op::T(TreeOp::Batch(..)) => "batch",
        Op::T(_) => "other",
        Op::Meta(_) => "set_metadata",
        Op::Flush => "flush",
    }
}

fn histories(len: usize) -> Vec<Vec<Op>> {
    histories_over(&alphabet(), len)
}
fn alphabet20() -> Vec<Op> {
    vec![
        Op::T(TreeOp::Set(0, 1)),
        Op::T(TreeOp::Set(1 << 19, 2)),
        Op::T(TreeOp::Set((1 << 20) - 1, 1)),
        Op::T(TreeOp::Delete(0)),
        Op::T(TreeOp::Append(1)),
        Op::T(TreeOp::Range(2, vec![1, 2])),
        Op::T(TreeOp::Batch(0, vec![], vec![0, 2])),
        Op::Meta(b"m".to_vec()),
        Op::Flush,
    ]
}
fn histories_over(a: &[Op], len: usize) -> Vec<Vec<Op>> {
    let mut out: Vec<Vec<Op>> = vec![vec![]];
    let mut cur: Vec<Vec<Op>> = vec![vec![]];
    for _ in 0..len {
        let mut next = vec![];
        for h in &cur {
            for op in a {
                let mut n = h.clone();
                n.push(op.clone());
                next.push(n);
            }
        }
        out.extend(next.iter().cloned());
        cur = next;
    }
    out
}

impl Prop for C16 {
    fn id(&self) -> &'static str { "C16" }
    fn level(&self) -> &'static str { "fault_enumeration" }
    fn run_case(&self, case: &Value) -> Vec<Discrepancy> {
        let hist: Vec<Op> = case["history"].as_array().map(|a| a.iter().filter_map(Op::from_json).collect()).unwrap_or_default();
        let cfg = cfg_from(&case["cfg"]);
        match case["kind"].as_str().unwrap_or("") {
            "adapter-map" => self.adapter_map(case["order"].as_u64().unwrap_or(0) as usize, case["split"].as_u64().unwrap_or(0) as usize),
            "reopen" => self.reopen(&hist, &cfg).0,
            "reopen-other-depth" => self.reopen_other_depth(&hist, &cfg, case["requested_depth"].as_u64().unwrap_or(4) as usize),
            "fault" => self.faulted(&hist, &cfg, case["k"].as_u64().unwrap_or(0)),
            "creation-fault" => self.creation_fault(&cfg, case["k"].as_u64().unwrap_or(0)),
            "rln-reopen" => self.rln_reopen(&hist),
            "locked-reopen" => self.locked_reopen(&hist, &cfg, case["hold_ms"].as_u64().unwrap_or(20)).0,
            "crash" => self.crash(&hist, &cfg, case["k"].as_u64().unwrap_or(0)).unwrap_or_default(),
            _ => vec![],
        }
    }
    fn explore(&self, ctx: &Ctx, findings: &Findings, ev: &mut Evidence) -> Result<(), String> {
        let q = ctx.tier == Tier::Quick;
        let hs = histories(if q { 3 } else { 4 });
        let base = Cfg::default_cfg();
        // (1) no-fault reopen for every history, measuring W(h)
        let r1 = par_map(&hs, ncpu(), |_, h| self.reopen(h, &base));
        // (0) the adapter as a map
        let nkeys = map_keys().len();
        let mitems: Vec<(usize, usize)> = (0..3usize).flat_map(|o| [0usize, 1, nkeys / 2, nkeys - 1, nkeys].into_iter().map(move |sp| (o, sp))).collect();
        let rm = par_map(&mitems, ncpu(), |_, (o, sp)| self.adapter_map(*o, *sp));
        for o in rm {
            findings.report_all(o);
        }
        ev.set("adapter_as_map_runs", json!(mitems.len()));
        ev.set("adapter_as_map_keys", json!(nkeys));
        let ditems: Vec<(usize, usize)> = (0..hs.len()).flat_map(|i| [base.depth - 1, base.depth + 1, 0].into_iter().map(move |d| (i, d))).collect();
        let rd = par_map(&ditems, ncpu(), |_, (i, d)| self.reopen_other_depth(&hs[*i], &base, *d));
        let n_other_depth = ditems.len();
        for o in rd {
            findings.report_all(o);
        }
        let mut ws = vec![];
        for (h, (o, w)) in hs.iter().zip(r1.into_iter()) {
            if h.iter().any(|op| !matches!(op, Op::Flush)) && w == 0 && o.is_empty() {
                return Err("the storage hook saw no operation for a history that writes: it is not intercepting the adapter any more".into());
            }
            ws.push(w);
            findings.report_all(o);
        }
        // storage configurations on a spread of histories
        let mut cfgs = vec![];
        for cache in [Some(1u64 << 20), None, Some(1u64 << 12), Some(150_000)] {
            for fl in [None, Some(50u64), Some(1)] {
                for mode in ["HighThroughput", "LowSpace"] {
                    cfgs.push(Cfg { cache, flush_ms: fl, mode, compression: false, depth: 3 });
                }
            }
        }
        let comp = Cfg { compression: true, ..Cfg::default_cfg() };
        let comp_ok = { let p = scratch_dir("c16p"); let r = guard(|| open(&p, &comp)).map(|r| r.is_ok()).unwrap_or(false); let _ = std::fs::remove_dir_all(&p); r };
        if comp_ok {
            cfgs.push(comp);
        }
        let spread: Vec<&Vec<Op>> = hs.iter().filter(|h| h.len() >= 2).step_by(if q { 9 } else { 31 }).collect();
        let citems: Vec<(usize, usize)> = (0..cfgs.len()).flat_map(|c| (0..spread.len()).map(move |s| (c, s))).collect();
        let rc = par_map(&citems, ncpu(), |_, (c, s)| self.reopen(spread[*s], &cfgs[*c]).0);
        for o in rc {
            findings.report_all(o);
        }
        // (2) every fault position of every history
        let mut fitems: Vec<(usize, u64)> = vec![];
        // storage operations of creation are counted too by a fresh dry run: W_create
        let wcreate = { let p = scratch_dir("c16w"); fault::disarm(); let t = open(&p, &base); let w = fault::ops(); drop(t); let _ = std::fs::remove_dir_all(&p); w };
        for (i, h) in hs.iter().enumerate() {
            if h.is_empty() {
                continue;
            }
            // operations performed by the history itself (creation excluded, final flush included)
            let w = ws[i].saturating_sub(wcreate);
            for k in 0..w {
                fitems.push((i, k));
            }
        }
        let rf = par_map(&fitems, ncpu(), |_, (i, k)| {
            let mut h = hs[*i].clone();
            h.push(Op::Flush);
            self.faulted(&h, &base, *k)
        });
        for o in rf {
            findings.report_all(o);
        }
        let mut ncreate = 0;
        for k in 0..wcreate {
            findings.report_all(self.creation_fault(&base, k));
            ncreate += 1;
        }
        // depth 20 (as deployed): shorter histories over positions across the tree; every operation performs about
        // twenty storage writes, each of which is a fault position
        let base20 = Cfg { depth: 20, ..Cfg::default_cfg() };
        let hs20 = histories_over(&alphabet20(), if q { 1 } else { 2 });
        let r20 = par_map(&hs20, ncpu(), |_, h| self.reopen(h, &base20));
        let w20create = { let p = scratch_dir("c16w"); fault::disarm(); let t = open(&p, &base20); let w = fault::ops(); drop(t); let _ = std::fs::remove_dir_all(&p); w };
        let mut f20items: Vec<(usize, u64)> = vec![];
        for (i, (o, w)) in r20.into_iter().enumerate() {
            findings.report_all(o);
            if hs20[i].is_empty() {
                continue;
            }
            for k in 0..w.saturating_sub(w20create) {
                f20items.push((i, k));
            }
        }
        let rf20 = par_map(&f20items, ncpu(), |_, (i, k)| {
            let mut h = hs20[*i].clone();
            h.push(Op::Flush);
            self.faulted(&h, &base20, *k)
        });
        for o in rf20 {
            findings.report_all(o);
        }
        // RLN-level reopen
        let rl: Vec<&Vec<Op>> = hs.iter().filter(|h| !h.iter().any(|o| matches!(o, Op::T(TreeOp::Batch(..))))).step_by(if q { 7 } else { 13 }).collect();
        let rr = par_map(&rl, ncpu(), |_, h| self.rln_reopen(h));
        for o in rr {
            findings.report_all(o);
        }
        // reopen under a lock still held by the previous instance
        let lh: Vec<&Vec<Op>> = hs.iter().filter(|h| h.len() == 2).step_by(if q { 11 } else { 5 }).collect();
        let litems: Vec<(usize, u64)> = (0..lh.len()).flat_map(|i| [0u64, 3, 25, 120].into_iter().map(move |t| (i, t))).collect();
        let lr = par_map(&litems, ncpu(), |_, (i, t)| self.locked_reopen(lh[*i], &base, *t).0);
        for o in lr {
            findings.report_all(o);
        }
        // (3) crash points: every history up to a bound, closed by [flush, one more write]; abort at every storage operation
        let ncrash;
        {
            let tail = [Op::Flush, Op::T(TreeOp::Set(6, 1))];
            let mut chs: Vec<Vec<Op>> = histories(if q { 2 } else { 3 }).into_iter().filter(|h| !h.is_empty()).map(|mut h| { h.extend_from_slice(&tail); h }).collect();
            if q {
                // the quick tier also takes, from the length-3 histories, every [w1, flush, w2]: the second
                // write starts from a storage handle with nothing pending
                let a = alphabet();
                for w1 in a.iter().filter(|o| !matches!(o, Op::Flush)) {
                    for w2 in a.iter().filter(|o| !matches!(o, Op::Flush)) {
                        let mut h = vec![w1.clone(), Op::Flush, w2.clone()];
                        h.extend_from_slice(&tail);
                        chs.push(h);
                    }
                }
            }
            // W of each history by a dry run (storage operations after creation)
            let ws = par_map(&chs, ncpu(), |_, h| {
                let path = scratch_dir("c16d");
                fault::disarm();
                let w = match open(&path, &base) {
                    Ok(mut t) => {
                        let w0 = fault::ops();
                        for op in h { let _ = apply(&mut t, op); }
                        fault::ops() - w0
                    }
                    Err(_) => 0,
                };
                let _ = std::fs::remove_dir_all(&path);
                w
            });
            let mut xitems: Vec<(usize, u64)> = vec![];
            for (i, w) in ws.iter().enumerate() {
                for k in 0..*w {
                    xitems.push((i, k));
                }
            }
            ncrash = xitems.len() as u64;
            let rc = par_map(&xitems, ncpu(), |_, (i, k)| self.crash(&chs[*i], &base, *k));
            for o in rc {
                findings.report_all(o?);
            }
        }
        let total = hs.len() + n_other_depth + citems.len() + fitems.len() + ncreate + rl.len() + ncrash as usize + litems.len() + hs20.len() + f20items.len();
        ev.set("evaluations", json!(total));
        ev.set("distinct_nontrivial", json!(fitems.len() as u64 + f20items.len() as u64 + ncrash));
        ev.set("histories", json!(hs.len()));
        ev.set("fault_positions", json!(fitems.len() + f20items.len()));
        ev.set("fault_positions_at_depth_20", json!(f20items.len()));
        ev.set("creation_fault_positions", json!(ncreate));
        ev.set("crash_points", json!(ncrash));
        ev.set("reopen_with_other_depth_requested", json!(n_other_depth));
        ev.set("reopen_under_held_lock", json!(litems.len()));
        ev.set("configurations", json!(cfgs.iter().map(|c| c.name()).collect::<Vec<_>>()));
        ev.set("compression_available", json!(comp_ok));
        ev.set("max_storage_ops_per_history", json!(ws.iter().max().cloned().unwrap_or(0)));
        ev.set("exhaustive", json!(true));
        ev.set("rule", json!("histories: every sequence of length <= L (3 quick / 4 thorough) over {set(0,a), set(5,b), delete(0), append(a), write_range(2,[a,b]), batch(0,[b],{0}), batch(remove {0,2}), set_metadata, flush} on a persistent tree of depth 3; (0) the storage adapter as a map: distinct values under 30-odd 8-byte keys that differ in exactly one byte or agree in their low 1 / 2 / 4 bytes, written singly and in one batch (5 splits x 3 orders), read back after writing, after overwriting every other key, and after flush + reopen; (1) each history + flush + drop + reopen must give root, leaves, leaf count and metadata of the ideal tree, and four further operations on the reopened tree must follow the ideal tree; the same with a tree of depth 2 or 4 requested at the location (refusal, or the stored tree unchanged), and with seven other configuration strings naming the location parsed (never opened) between close and reopen; a spread of histories under every storage configuration; (2) for each history the number W of storage operations is measured by a dry run and for every k < W the k-th operation is made to fail: the tree operation in progress must return Err, then flush, drop, reopen must show every acknowledged update outside the failed operation's targets; the same at depth 20 for histories of length <= 1 (quick) / 2 (thorough) over positions 0, 2^19, 2^20-1 (about 20 storage writes per operation); faults during creation; reopening while the previous instance still holds the storage lock for {0,3,25,120} ms; (3) crash points: for every history up to length 2 (quick, plus every [w1, flush, w2]) / 3 (thorough) followed by [flush, write] a child process runs it, records each acknowledged operation in a side file and aborts at the k-th storage operation, for every k; after recovery everything acknowledged up to the last acknowledged flush must be there; distinct_nontrivial = distinct (history, k) fault positions + crash points"));
        if let Some((i, k)) = fitems.get(fitems.len() / 2) {
            ev.sample(case_json("fault", &hs[*i], &base, Some(*k)));
        }
        ev.sample(case_json("reopen", &hs[hs.len() - 1], &base, None));
        ev.assume("fault positions are the adapter's storage operations (insert, apply_batch, flush); torn writes inside sled's log and failing reads are not enumerable here");
        ev.assume("the crash variant kills the process (abort), the operating system keeps what was written: power-loss semantics are out of reach");
        Ok(())
    }
}

/// `zkv --worker crash <json>`: child of the crash variant
pub fn worker_crash(arg: &str) -> i32 {
    use std::io::Write;
    let v: Value = match serde_json::from_str(arg) { Ok(v) => v, Err(_) => return 2 };
    let path = PathBuf::from(v["path"].as_str().unwrap_or("/nonexistent"));
    let ack = PathBuf::from(v["ack"].as_str().unwrap_or("/nonexistent"));
    let case = &v["case"];
    let cfg = cfg_from(&case["cfg"]);
    let hist: Vec<Op> = case["history"].as_array().map(|a| a.iter().filter_map(Op::from_json).collect()).unwrap_or_default();
    fault::disarm();
    let mut t = match open(&path, &cfg) { Ok(t) => t, Err(_) => return 3 };
    let mut log = match std::fs::OpenOptions::new().create(true).append(true).open(&ack) { Ok(f) => f, Err(_) => return 4 };
    fault::arm(case["k"].as_u64().unwrap_or(0), fault::MODE_ABORT);
    for (i, op) in hist.iter().enumerate() {
        if apply(&mut t, op) == R::Ok {
            // the acknowledgement is recorded before anything else happens (the write reaches the page cache,
            // which survives the abort)
            let _ = writeln!(log, "{i}");
            let _ = log.flush();
        }
    }
    // reached only when k is not below the number of storage operations of the history
    std::process::abort();
}
