//! Shared helpers for the properties that drive the prover / verifier: reference formulas,
//! deviation grids over the circuit inputs, thread-local RLN instances, node reference pool.
use super::*;
use crate::explore::noderef::{CircuitInputs, NodeRef};
use crate::refmodel::codec;
use crate::refmodel::field::*;
use crate::refmodel::poseidon;
use crate::refmodel::tree::fold_path;
use rln::public::RLN;
use serde_json::json;
use std::cell::RefCell;
use std::io::Cursor;

pub const DEPTH: usize = 20;

/// reference formulas of the RLN circuit's public values
pub fn ref_values(ci: &CircuitInputs) -> codec::ProofValues {
    let a1 = poseidon::hash(&[ci.secret.clone(), ci.ext.clone(), ci.id.clone()]);
    let y = fadd(&ci.secret, &fmul(&ci.x, &a1));
    let nullifier = poseidon::hash(&[a1]);
    let commitment = poseidon::hash(&[ci.secret.clone()]);
    let rate = poseidon::hash(&[commitment, ci.limit.clone()]);
    let bits: Vec<u8> = ci.bits.iter().map(|b| if *b == big(0) { 0 } else { 1 }).collect();
    let root = fold_path(&rate, &ci.path, &bits);
    codec::ProofValues { root, ext: ci.ext.clone(), x: ci.x.clone(), y, nullifier }
}
pub fn rate_commitment(secret: &BigUint, limit: &BigUint) -> BigUint {
    poseidon::hash(&[poseidon::hash(&[secret.clone()]), limit.clone()])
}

pub fn default_inputs() -> CircuitInputs {
    CircuitInputs {
        secret: dec("12345678901234567890123456789012345678"),
        limit: big(100),
        id: big(1),
        path: (0..20u64).map(|k| big(1000 + k) * pow2(100) + big(k)).collect(),
        bits: vec![big(0); 20],
        x: dec("987654321098765432109876543210987654321"),
        ext: dec("555555555555555555555555555555555555555555"),
    }
}

/// witness bytes in the documented layout (direction values as single bytes)
pub fn witness_bytes(ci: &CircuitInputs) -> Vec<u8> {
    codec::witness(&codec::Witness {
        secret: ci.secret.clone(),
        limit: ci.limit.clone(),
        id: ci.id.clone(),
        path: ci.path.clone(),
        index: ci.bits.iter().map(|b| b.iter_u64_digits().next().unwrap_or(0) as u8).collect(),
        x: ci.x.clone(),
        ext: ci.ext.clone(),
    })
}

/// the named inputs in the order zerokit itself uses
pub fn named_inputs(ci: &CircuitInputs) -> Vec<(String, Vec<Fr>)> {
    vec![
        ("identitySecret".to_string(), vec![to_fr(&ci.secret)]),
        ("userMessageLimit".to_string(), vec![to_fr(&ci.limit)]),
        ("messageId".to_string(), vec![to_fr(&ci.id)]),
        ("pathElements".to_string(), ci.path.iter().map(to_fr).collect()),
        ("identityPathIndex".to_string(), ci.bits.iter().map(to_fr).collect()),
        ("x".to_string(), vec![to_fr(&ci.x)]),
        ("externalNullifier".to_string(), vec![to_fr(&ci.ext)]),
    ]
}

/// direction-bit patterns: all 0, all 1, one-hot, alternating, bit patterns of the position alphabet
pub fn bit_patterns() -> Vec<Vec<BigUint>> {
    let mut v: Vec<Vec<u8>> = vec![vec![0; 20], vec![1; 20]];
    for k in 0..20 {
        let mut b = vec![0u8; 20];
        b[k] = 1;
        v.push(b);
    }
    v.push((0..20).map(|k| (k % 2) as u8).collect());
    v.push((0..20).map(|k| ((k + 1) % 2) as u8).collect());
    for i in POS_ALPHABET {
        v.push((0..20).map(|k| ((i >> k) & 1) as u8).collect());
    }
    // exactly two levels set, every pair of levels
    for a in 0..20 {
        for b in (a + 1)..20 {
            let mut x = vec![0u8; 20];
            x[a] = 1;
            x[b] = 1;
            v.push(x);
        }
    }
    let mut seen = std::collections::BTreeSet::new();
    v.retain(|b| seen.insert(b.clone()));
    v.into_iter().map(|b| b.into_iter().map(|x| big(x as u64)).collect()).collect()
}
pub const POS_ALPHABET: [u64; 11] = [0, 1, 255, 256, (1 << 19) - 1, 1 << 19, (1 << 19) + 1, 0xAAAAA, 0x55555, (1 << 20) - 2, (1 << 20) - 1];

pub fn limit_id_valid() -> Vec<(u64, u64)> {
    vec![(100, 1), (1, 0), (2, 0), (2, 1), (100, 0), (100, 99), (65535, 65534), (65535, 0), (256, 255), (257, 256), (65536, 65535), (65536, 0), (65536, 256), (356, 101), (65636, 101), (65636, 65535), (65537, 65535)]
}

/// field alphabet: F* plus 64-bit limb boundaries plus seeded random values
pub fn field_alphabet(seed: u64, randoms: usize, limbs: bool) -> Vec<BigUint> {
    let mut v = fstar();
    if limbs {
        for j in 1..=3u32 {
            v.push(pow2(64 * j) - big(1));
            v.push(pow2(64 * j) + big(1));
        }
    }
    if limbs {
        v.extend(limb_patterns(seed));
    }
    let mut r = SplitMix(seed ^ 0x5bd1e995);
    for _ in 0..randoms {
        v.push(r.field());
    }
    let mut seen = std::collections::BTreeSet::new();
    v.retain(|b| seen.insert(b.clone()));
    v
}

/// A coordinate of the witness grid: name and the alternatives (index 0 = default = no change).
pub struct Coord {
    pub name: String,
    pub alts: Vec<Box<dyn Fn(&mut CircuitInputs) + Send + Sync>>,
}

pub fn witness_coords(seed: u64, randoms: usize, limbs: bool, path_positions: &[usize]) -> Vec<Coord> {
    let fa = field_alphabet(seed, randoms, limbs);
    let mut coords: Vec<Coord> = vec![];
    let mk = |name: &str, f: fn(&mut CircuitInputs, &BigUint), fa: &Vec<BigUint>| {
        let mut alts: Vec<Box<dyn Fn(&mut CircuitInputs) + Send + Sync>> = vec![Box::new(|_| {})];
        for v in fa.iter().cloned() {
            alts.push(Box::new(move |c: &mut CircuitInputs| f(c, &v)));
        }
        Coord { name: name.to_string(), alts }
    };
    coords.push(mk("secret", |c, v| c.secret = v.clone(), &fa));
    coords.push(mk("x", |c, v| c.x = v.clone(), &fa));
    coords.push(mk("ext", |c, v| c.ext = v.clone(), &fa));
    {
        let mut alts: Vec<Box<dyn Fn(&mut CircuitInputs) + Send + Sync>> = vec![Box::new(|_| {})];
        for (l, i) in limit_id_valid().into_iter().skip(1) {
            alts.push(Box::new(move |c: &mut CircuitInputs| {
                c.limit = big(l);
                c.id = big(i);
            }));
        }
        coords.push(Coord { name: "limit,id".into(), alts });
    }
    {
        let mut alts: Vec<Box<dyn Fn(&mut CircuitInputs) + Send + Sync>> = vec![Box::new(|_| {})];
        for pos in path_positions.iter().cloned() {
            for v in fa.iter().cloned() {
                alts.push(Box::new(move |c: &mut CircuitInputs| c.path[pos] = v.clone()));
            }
        }
        // a sibling equal to the running hash at its level (both children of that node equal)
        for pos in [0usize, 7, 19] {
            alts.push(Box::new(move |c: &mut CircuitInputs| {
                let rate = rate_commitment(&c.secret, &c.limit);
                let bits: Vec<u8> = c.bits.iter().map(|b| if *b == big(0) { 0 } else { 1 }).collect();
                c.path[pos] = fold_path(&rate, &c.path[..pos], &bits[..pos]);
            }));
        }
        coords.push(Coord { name: "path element".into(), alts });
    }
    {
        let mut alts: Vec<Box<dyn Fn(&mut CircuitInputs) + Send + Sync>> = vec![Box::new(|_| {})];
        for b in bit_patterns().into_iter().skip(1) {
            alts.push(Box::new(move |c: &mut CircuitInputs| c.bits = b.clone()));
        }
        coords.push(Coord { name: "direction bits".into(), alts });
    }
    coords
}

/// every vector within k deviations of the default
pub fn grid(coords: &[Coord], k: usize) -> Vec<(Vec<usize>, CircuitInputs)> {
    let sizes: Vec<usize> = coords.iter().map(|c| c.alts.len()).collect();
    deviations(&sizes, k)
        .into_iter()
        .map(|idx| {
            let mut ci = default_inputs();
            for (c, a) in coords.iter().zip(idx.iter()) {
                (c.alts[*a])(&mut ci);
            }
            (idx, ci)
        })
        .collect()
}

thread_local! {
    static TL_RLN: RefCell<Option<RLN>> = const { RefCell::new(None) };
    static TL_NODE: RefCell<Option<NodeRef>> = const { RefCell::new(None) };
}

/// thread-local RLN instance of height 20 (created on first use)
pub fn with_rln<R>(f: impl FnOnce(&mut RLN) -> R) -> R {
    TL_RLN.with(|c| {
        let mut g = c.borrow_mut();
        if g.is_none() {
            *g = Some(RLN::new(DEPTH, Cursor::new(json!({}).to_string())).expect("RLN::new"));
        }
        f(g.as_mut().unwrap())
    })
}
/// drop the instance (after a panic inside it, its state is not trusted any more)
pub fn discard_rln() {
    TL_RLN.with(|c| *c.borrow_mut() = None);
}

/// thread-local reference generator
pub fn with_node<R>(verif: &std::path::Path, f: impl FnOnce(&mut NodeRef) -> R) -> Result<R, String> {
    TL_NODE.with(|c| {
        let mut g = c.borrow_mut();
        if g.is_none() {
            *g = Some(NodeRef::spawn(verif)?);
        }
        Ok(f(g.as_mut().unwrap()))
    })
}
pub fn node_witness(verif: &std::path::Path, ci: &CircuitInputs) -> Result<Result<Vec<BigUint>, String>, String> {
    let r = with_node(verif, |n| n.witness(ci))?;
    if r.is_err() {
        TL_NODE.with(|c| *c.borrow_mut() = None);
    }
    r
}
