//! C02 — verification accepts only untampered messages bound to signal and root.
use super::msg::*;
use super::rlnsub::*;
use super::*;
use crate::refmodel::codec;
use crate::refmodel::field::*;
use rln::public::RLN;
use serde_json::json;
use std::io::Cursor;

pub struct C02;

/// One alteration of an accepted message / its verification context.
#[derive(Clone, Debug)]
pub enum Tamper {
    None,
    /// public value k (0 root, 1 ext, 2 x, 3 y, 4 nullifier) replaced by a canonical value
    Value(usize, BigUint, String),
    /// signal replaced (declared length follows the new signal)
    Signal(Vec<u8>, String),
    /// declared length replaced; optional extra bytes appended to the buffer
    Length(u64, Vec<u8>, String),
    /// one bit of the proof part flipped
    ProofBit(usize),
    /// verifier's tree changed after proving: 0 set another leaf, 1 delete the member leaf, 2 append, 3 reset
    Tree(u8),
    /// root set: list of roots, `true` marks the message's root
    Roots(Vec<Option<u64>>, String),
    /// root buffer = one complete foreign root followed by bytes lo..hi of the message's own root (never a complete root)
    RootsFragment(usize, usize),
    /// bits i and j (0..256, little-endian bit numbering of the 32 bytes) of public value k flipped; `wide`: also
    /// through verify_rln_proof
    Bits(usize, usize, usize, bool),
}
impl Tamper {
    fn kind(&self) -> String {
        match self {
            Tamper::None => "untouched".into(),
            Tamper::Value(k, _, how) => format!("{}-{}", ["root", "ext", "x", "y", "nullifier"][*k], how),
            Tamper::Signal(_, how) => format!("signal-{how}"),
            Tamper::Length(_, _, how) => format!("declared-length-{how}"),
            Tamper::ProofBit(_) => "proof-bit-flip".into(),
            Tamper::Tree(k) => format!("tree-{}", ["other-leaf-set", "member-leaf-deleted", "leaf-appended", "reset", "changed-and-changed-back", "member-removed-by-a-batch", "member-removed-by-a-batch-that-repeats-an-empty-position", "member-leaf-overwritten-with-the-default", "member-removed-by-a-batch-listing-it-twice"][*k as usize]),
            Tamper::Roots(_, how) => format!("root-set-{how}"),
            Tamper::RootsFragment(lo, hi) => format!("root-buffer-foreign-root-then-own-bytes-{lo}..{hi}"),
            Tamper::Bits(k, i, j, _) => format!("{}-{}-flipped", ["root", "ext", "x", "y", "nullifier"][*k], if i == j { "one-bit" } else { "two-bits" }),
        }
    }
    fn to_json(&self) -> Value {
        match self {
            Tamper::None => json!({"t":"none"}),
            Tamper::Value(k, v, how) => json!({"t":"value","field":k,"value":v.to_str_radix(10),"how":how}),
            Tamper::Signal(s, how) => json!({"t":"signal","hex":hex(s),"how":how}),
            Tamper::Length(n, extra, how) => json!({"t":"length","len":n,"extra_hex":hex(extra),"how":how}),
            Tamper::ProofBit(b) => json!({"t":"proofbit","bit":b}),
            Tamper::Tree(k) => json!({"t":"tree","k":k}),
            Tamper::Roots(r, how) => json!({"t":"roots","set":r,"how":how}),
            Tamper::RootsFragment(lo, hi) => json!({"t":"rootsfragment","lo":lo,"hi":hi}),
            Tamper::Bits(k, i, j, w) => json!({"t":"bits","field":k,"i":i,"j":j,"wide":w}),
        }
    }
    fn from_json(v: &Value) -> Option<Tamper> {
        let how = v["how"].as_str().unwrap_or("").to_string();
        Some(match v["t"].as_str()? {
            "none" => Tamper::None,
            "value" => Tamper::Value(v["field"].as_u64()? as usize, bdec(&v["value"]), how),
            "signal" => Tamper::Signal(unhex(v["hex"].as_str()?), how),
            "length" => Tamper::Length(v["len"].as_u64()?, unhex(v["extra_hex"].as_str()?), how),
            "proofbit" => Tamper::ProofBit(v["bit"].as_u64()? as usize),
            "tree" => Tamper::Tree(v["k"].as_u64()? as u8),
            "roots" => Tamper::Roots(v["set"].as_array()?.iter().map(|x| x.as_u64()).collect(), how),
            "rootsfragment" => Tamper::RootsFragment(v["lo"].as_u64()? as usize, v["hi"].as_u64()? as usize),
            "bits" => Tamper::Bits(v["field"].as_u64()? as usize, v["i"].as_u64()? as usize, v["j"].as_u64()? as usize, v["wide"] == true),
            _ => return None,
        })
    }
}

pub fn base_requests(thorough: bool) -> Vec<Req> {
    let d = Req::default_req();
    let mut v = vec![
        d.clone(),
        Req { index: (1 << 20) - 1, signal: (0..1000u32).map(|k| (k % 251) as u8).collect(), ctx: 1, ..d.clone() },
        Req { secret: p() - big(1), index: 1 << 19, limit: big(1), id: big(0), signal: vec![], ctx: 0, ..d.clone() },
    ];
    // a tree whose root has a zero top byte (byte-level boundary of the root's encoding)
    v.push(Req { index: 77, ctx: 6, ..d.clone() });
    if thorough {
        v.push(Req { index: 0, ext: big(0), signal: vec![b'a'; 136], ctx: 2, ..d.clone() });
        v.push(Req { index: 255, limit: big(65536), id: big(65535), ext: p() - big(1), ctx: 3, ..d.clone() });
        v.push(Req { secret: big(0), index: 0xAAAAA, signal: vec![0], ..d.clone() });
        v.push(Req { secret: big(1), index: (1 << 19) - 1, limit: big(2), id: big(1), signal: vec![b'a'; 137], ..d.clone() });
        v.push(Req { index: 256, ext: big(1), signal: vec![b'a'; 135], ctx: 1, ..d });
    }
    v
}

fn tampers(r: &Req, msg: &[u8], thorough: bool, base_idx: usize) -> Vec<Tamper> {
    let mut t = vec![Tamper::None];
    let vals: Vec<BigUint> = (0..5).map(|k| from_le(&msg[128 + 32 * k..160 + 32 * k])).collect();
    for k in 0..5 {
        let v = &vals[k];
        let mut cands: Vec<(BigUint, String)> = vec![
            (fadd(v, &big(1)), "plus-1".into()),
            (fsub(v, &big(1)), "minus-1".into()),
            (big(0), "zero".into()),
            (big(1), "one".into()),
            (p() - big(1), "p-minus-1".into()),
        ];
        for (j, o) in vals.iter().enumerate() {
            if j != k {
                cands.push((o.clone(), format!("other-field-{}", ["root", "ext", "x", "y", "nullifier"][j])));
            }
        }
        for (nv, how) in cands {
            if nv != *v {
                t.push(Tamper::Value(k, nv, how));
            }
        }
    }
    let s = &r.signal;
    if !s.is_empty() {
        let mut a = s.clone();
        a[0] ^= 1;
        t.push(Tamper::Signal(a, "first-bit-flipped".into()));
        let mut a = s.clone();
        let n = a.len();
        a[n - 1] ^= 0x80;
        t.push(Tamper::Signal(a, "last-bit-flipped".into()));
        let mut a = s.clone();
        a.pop();
        t.push(Tamper::Signal(a, "last-byte-dropped".into()));
        t.push(Tamper::Signal(vec![], "emptied".into()));
        t.push(Tamper::Length(s.len() as u64 - 1, vec![], "minus-1".into()));
        t.push(Tamper::Length(0, vec![], "zero".into()));
    }
    let mut a = s.clone();
    a.push(0);
    t.push(Tamper::Signal(a, "zero-byte-appended".into()));
    t.push(Tamper::Signal(b"another signal".to_vec(), "replaced".into()));
    t.push(Tamper::Length(s.len() as u64 + 1, vec![0], "plus-1-buffer-extended".into()));
    for byte in 0..128usize {
        let _ = thorough;
        for bit in 0..8 {
            t.push(Tamper::ProofBit(byte * 8 + bit));
        }
    }
    for k in 0..4 {
        t.push(Tamper::Tree(k));
    }
    // Some(0) = the message's root; Some(n>0) = unrelated root number n
    t.push(Tamper::Roots(vec![], "empty".into()));
    t.push(Tamper::Roots(vec![Some(0)], "only-own-root".into()));
    t.push(Tamper::Roots(vec![Some(1)], "one-foreign-root".into()));
    t.push(Tamper::Roots(vec![Some(1), Some(2), Some(0)], "own-root-last-of-three".into()));
    t.push(Tamper::Roots(vec![Some(0), Some(0)], "own-root-twice".into()));
    t.push(Tamper::Roots(vec![Some(1), Some(2), Some(3), Some(4), Some(5)], "five-foreign-roots".into()));
    // a complete foreign root followed by an incomplete copy of the own root: the own root is NOT in the set
    for (lo, hi) in [(0usize, 31usize), (0, 16), (0, 1), (1, 32), (16, 32)] {
        t.push(Tamper::RootsFragment(lo, hi));
    }
    // root sets of many sizes, own root first / in the middle / last / absent
    for n in [2usize, 3, 4, 5, 8, 9, 16, 17, 255, 256, 257] {
        let foreign: Vec<Option<u64>> = (1..=n as u64).map(Some).collect();
        t.push(Tamper::Roots(foreign.clone(), format!("{n}-foreign-roots")));
        for (pos, name) in [(0usize, "first"), (n / 2, "middle"), (n - 1, "last")] {
            let mut s = foreign.clone();
            s[pos] = Some(0);
            t.push(Tamper::Roots(s, format!("{n}-roots-own-{name}")));
        }
    }
    // every byte of every public value: lowest bit flipped (the value may then exceed the field order: still not acceptable)
    for k in 0..5usize {
        for byte in 0..32usize {
            let mut b = msg[128 + 32 * k..160 + 32 * k].to_vec();
            b[byte] ^= 1;
            t.push(Tamper::Value(k, from_le(&b), format!("byte-{byte}-bit-flipped")));
        }
    }
    // the verifier's tree changes and changes back: the message is acceptable again
    t.push(Tamper::Tree(4));
    // the member removed through the other removal paths (batch removal indices are single bytes)
    if r.index >= 2 && r.index < 256 {
        for k in [5u8, 6, 7, 8] {
            t.push(Tamper::Tree(k));
        }
    }
    // bit-level alterations of the public values. First base message: every single bit; every pair of bits that
    // sit in two different 64-bit limbs at bit offsets at most 8 apart (quick) / every pair of bits (thorough).
    // Other base messages (thorough): the limb-pair family.
    if base_idx == 0 || thorough {
        for k in 0..5usize {
            if base_idx == 0 {
                for i in 0..256usize {
                    t.push(Tamper::Bits(k, i, i, true));
                }
            }
            if base_idx == 0 && thorough {
                for i in 0..256usize {
                    for j in i + 1..256 {
                        t.push(Tamper::Bits(k, i, j, true));
                    }
                }
            } else {
                for la in 0..4usize {
                    for lb in la + 1..4 {
                        for bi in 0..64i64 {
                            for d in -8i64..=8 {
                                let bj = bi + d;
                                if (0..64).contains(&bj) {
                                    t.push(Tamper::Bits(k, la * 64 + bi as usize, lb * 64 + bj as usize, false));
                                }
                            }
                        }
                    }
                }
            }
        }
    }
    t
}

fn foreign_root(n: u64) -> BigUint {
    crate::refmodel::poseidon::hash(&[big(7_000_000 + n)])
}

impl C02 {
    /// Applies one tampering to (msg, signal) and queries the verifiers; returns discrepancies.
    /// The instance's tree must be the one the message was proved against.
    fn judge(&self, rln: &mut RLN, r: &Req, root: &BigUint, msg: &[u8], t: &Tamper, base_idx: usize) -> Vec<Discrepancy> {
        let mut out = vec![];
        let case = json!({"base": base_idx, "req": r.to_json(), "tamper": t.to_json(), "message_hex": hex(msg)});
        let mut m = msg.to_vec();
        let mut signal = r.signal.clone();
        let mut declared: Option<(u64, Vec<u8>)> = None;
        let own_root = codec::fr(root);
        // what must hold: (verifier name, result, must_accept)
        let mut checks: Vec<(String, VResult, bool)> = vec![];
        let build = |m: &[u8], signal: &[u8], declared: &Option<(u64, Vec<u8>)>| -> Vec<u8> {
            match declared {
                None => with_signal(m, signal),
                Some((n, extra)) => {
                    let mut o = m.to_vec();
                    o.extend_from_slice(&n.to_le_bytes());
                    o.extend_from_slice(signal);
                    o.extend_from_slice(extra);
                    o
                }
            }
        };
        match t {
            Tamper::None => {
                let input = build(&m, &signal, &declared);
                checks.push(("verify_rln_proof".into(), v_tree(rln, &input), true));
                checks.push(("verify_with_roots[own]".into(), v_roots(rln, &input, &own_root), true));
                checks.push(("verify".into(), v_raw(rln, &m), true));
            }
            Tamper::Value(k, v, _) => {
                m[128 + 32 * k..160 + 32 * k].copy_from_slice(&to_le32(v));
                let input = build(&m, &signal, &declared);
                checks.push(("verify_rln_proof".into(), v_tree(rln, &input), false));
                checks.push(("verify_with_roots[own]".into(), v_roots(rln, &input, &own_root), false));
                checks.push(("verify_with_roots[]".into(), v_roots(rln, &input, &[]), false));
                checks.push(("verify_with_roots[carried]".into(), v_roots(rln, &input, &m[128..160].to_vec()), false));
                checks.push(("verify".into(), v_raw(rln, &m), false));
            }
            Tamper::Signal(s, _) => {
                signal = s.clone();
                let input = build(&m, &signal, &declared);
                checks.push(("verify_rln_proof".into(), v_tree(rln, &input), false));
                checks.push(("verify_with_roots[own]".into(), v_roots(rln, &input, &own_root), false));
                checks.push(("verify_with_roots[]".into(), v_roots(rln, &input, &[]), false));
            }
            Tamper::Length(n, extra, _) => {
                declared = Some((*n, extra.clone()));
                let input = build(&m, &signal, &declared);
                checks.push(("verify_rln_proof".into(), v_tree(rln, &input), false));
                checks.push(("verify_with_roots[own]".into(), v_roots(rln, &input, &own_root), false));
                checks.push(("verify_with_roots[]".into(), v_roots(rln, &input, &[]), false));
            }
            Tamper::ProofBit(b) => {
                m[b / 8] ^= 1 << (b % 8);
                let input = build(&m, &signal, &declared);
                checks.push(("verify_rln_proof".into(), v_tree(rln, &input), false));
                checks.push(("verify_with_roots[own]".into(), v_roots(rln, &input, &own_root), false));
                checks.push(("verify".into(), v_raw(rln, &m), false));
            }
            Tamper::Tree(k) => {
                let rd = |b: Vec<u8>| Cursor::new(b);
                let other = (r.index + 2) % (1 << 20);
                if *k == 4 {
                    // positive control: a fresh position beyond the leaf count is written and removed again
                    let mut n = Cursor::new(Vec::<u8>::new());
                    let _ = n;
                    let far = ((r.index + 77) % (1 << 20)).max(r.index + 3).min((1 << 20) - 1);
                    let far = if far == r.index || far == (r.index ^ 1) { (r.index + 5) % (1 << 20) } else { far };
                    let was_default = { let mut b = Cursor::new(Vec::<u8>::new()); rln.get_leaf(far as usize, &mut b).is_ok() && b.get_ref().iter().all(|x| *x == 0) };
                    if was_default && rln.set_leaf(far as usize, rd(codec::fr(&big(123)))).is_ok() {
                        let input = build(&m, &signal, &declared);
                        checks.push(("verify_rln_proof[tree changed]".into(), v_tree(rln, &input), false));
                        let _ = rln.set_leaf(far as usize, rd(codec::fr(&big(0))));
                        let mut nr = Cursor::new(Vec::<u8>::new());
                        let _ = rln.get_root(&mut nr);
                        if nr.into_inner() == own_root {
                            checks.push(("verify_rln_proof[tree changed back]".into(), v_tree(rln, &input), true));
                        }
                    }
                    let _ = setup_tree(rln, r);
                    for (name, res, must) in checks.drain(..) {
                        let kind = t.kind();
                        if must && !res.accepted() {
                            out.push(Discrepancy { key: format!("C02/{name}/{kind}/control-rejected"), case: case.clone(), detail: format!("{name} returned {} although every condition holds again", res.short()) });
                        }
                        if !must && res.accepted() {
                            out.push(Discrepancy { key: format!("C02/{name}/{kind}/accepted"), case: case.clone(), detail: format!("{name} returned true although the verifier's tree has another root") });
                        }
                    }
                    return out;
                }
                // an empty position below the member (never the member's neighbour, which some contexts write)
                let empty_below = (0..r.index).rev().find(|i| *i != (r.index ^ 1) && {
                    let mut b = Cursor::new(Vec::<u8>::new());
                    rln.get_leaf(*i as usize, &mut b).is_ok() && b.get_ref().iter().all(|x| *x == 0)
                });
                let res = match k {
                    0 => rln.set_leaf(other as usize, rd(codec::fr(&big(99)))),
                    1 => rln.delete_leaf(r.index as usize),
                    2 => rln.set_next_leaf(rd(codec::fr(&big(98)))),
                    5 => rln.atomic_operation(0, rd(codec::vec_fr(&[])), rd(codec::vec_u8(&[r.index as u8]))),
                    6 => match empty_below {
                        Some(e) => rln.atomic_operation(0, rd(codec::vec_fr(&[])), rd(codec::vec_u8(&[e as u8, e as u8, r.index as u8]))),
                        None => rln.delete_leaf(r.index as usize),
                    },
                    7 => rln.set_leaf(r.index as usize, rd(codec::fr(&big(0)))),
                    8 => rln.atomic_operation(0, rd(codec::vec_fr(&[])), rd(codec::vec_u8(&[r.index as u8, r.index as u8]))),
                    _ => rln.set_tree(DEPTH),
                };
                let input = build(&m, &signal, &declared);
                let mut nr = Cursor::new(Vec::<u8>::new());
                let _ = rln.get_root(&mut nr);
                let new_root = nr.into_inner();
                if res.is_ok() && new_root == own_root && matches!(k, 1 | 5 | 6 | 7 | 8) {
                    // the removal was acknowledged: the sender is no member any more, whatever the tree did internally
                    checks.push(("verify_rln_proof[member removed]".into(), v_tree(rln, &input), false));
                }
                if res.is_ok() && new_root != own_root {
                    checks.push(("verify_rln_proof".into(), v_tree(rln, &input), false));
                    checks.push(("verify_with_roots[new tree root]".into(), v_roots(rln, &input, &new_root), false));
                    // the old root supplied through the root set is still acceptable (positive control)
                    checks.push(("verify_with_roots[own]".into(), v_roots(rln, &input, &own_root), true));
                }
                // restore the tree for whoever comes next
                let _ = setup_tree(rln, r);
            }
            Tamper::Bits(k, i, j, wide) => {
                let off = 128 + 32 * k;
                m[off + i / 8] ^= 1 << (i % 8);
                if i != j {
                    m[off + j / 8] ^= 1 << (j % 8);
                }
                checks.push(("verify".into(), v_raw(rln, &m), false));
                if *wide {
                    let input = build(&m, &signal, &declared);
                    checks.push(("verify_rln_proof".into(), v_tree(rln, &input), false));
                }
            }
            Tamper::RootsFragment(lo, hi) => {
                let mut bytes = codec::fr(&foreign_root(1));
                bytes.extend_from_slice(&own_root[*lo..*hi]);
                let input = build(&m, &signal, &declared);
                checks.push(("verify_with_roots".into(), v_roots(rln, &input, &bytes), false));
            }
            Tamper::Roots(set, _) => {
                let mut bytes = vec![];
                for e in set {
                    match e {
                        Some(0) => bytes.extend_from_slice(&own_root),
                        Some(n) => bytes.extend(codec::fr(&foreign_root(*n))),
                        None => {}
                    }
                }
                let input = build(&m, &signal, &declared);
                let must = set.is_empty() || set.contains(&Some(0));
                checks.push(("verify_with_roots".into(), v_roots(rln, &input, &bytes), must));
            }
        }
        for (name, res, must) in checks {
            let kind = t.kind();
            if must && !res.accepted() {
                out.push(Discrepancy { key: format!("C02/{name}/{kind}/control-rejected"), case: case.clone(), detail: format!("{name} returned {} although every condition holds ({kind})", res.short()) });
            }
            if !must && res.accepted() {
                out.push(Discrepancy { key: format!("C02/{name}/{kind}/accepted"), case: case.clone(), detail: format!("{name} returned true for a message altered by: {kind}") });
            }
        }
        out
    }
}

/// the bundled proving / verification key with gamma_g2 and delta_g2 exchanged in the snarkjs container: another
/// well-formed key of the same circuit
fn other_key() -> Option<Vec<u8>> {
    let mut z = rln::circuit::ZKEY_BYTES.to_vec();
    let nsec = u32::from_le_bytes(z.get(8..12)?.try_into().ok()?);
    let mut pos = 12usize;
    let mut header = None;
    for _ in 0..nsec {
        let id = u32::from_le_bytes(z.get(pos..pos + 4)?.try_into().ok()?);
        let len = u64::from_le_bytes(z.get(pos + 4..pos + 12)?.try_into().ok()?) as usize;
        pos += 12;
        if id == 2 {
            header = Some(pos);
        }
        pos += len;
    }
    // n8q<4> q<32> n8r<4> r<32> nVars<4> nPublic<4> domainSize<4> alpha1<64> beta1<64> beta2<128> gamma2<128> delta1<64> delta2<128>
    let g = header? + 84 + 64 + 64 + 128;
    let d = g + 128 + 64;
    let (gb, db) = (z.get(g..g + 128)?.to_vec(), z.get(d..d + 128)?.to_vec());
    if gb == db {
        return None;
    }
    z[g..g + 128].copy_from_slice(&db);
    z[d..d + 128].copy_from_slice(&gb);
    Some(z)
}

impl C02 {
    /// an instance built with ANOTHER key (same circuit, same tree) must not accept a message made under the bundled key
    fn other_instance(&self, r: &Req, msg: &[u8], root: &BigUint) -> Vec<Discrepancy> {
        let case = json!({"kind": "other-key", "req": r.to_json(), "message_hex": hex(msg)});
        let mut out = vec![];
        let key = match other_key() { Some(k) => k, None => return vec![Discrepancy { key: "C02/other-key/harness".into(), case, detail: "cannot build the second key from the bundled container".into() }] };
        let res = guard(|| -> Result<Vec<(String, VResult)>, String> {
            let mut other = RLN::new_with_params(DEPTH, key, rln::circuit::graph_from_folder().to_vec(), Cursor::new(Vec::<u8>::new())).map_err(|e| format!("new_with_params: {e}"))?;
            setup_tree(&mut other, r)?;
            let input = with_signal(msg, &r.signal);
            Ok(vec![
                ("verify".to_string(), v_raw(&other, msg)),
                ("verify_rln_proof".to_string(), v_tree(&other, &input)),
                ("verify_with_roots[own]".to_string(), v_roots(&other, &input, &codec::fr(root))),
            ])
        });
        match res {
            Err(pn) => out.push(Discrepancy { key: "C02/other-key/panic".into(), case, detail: pn }),
            Ok(Err(e)) => out.push(Discrepancy { key: "C02/other-key/harness".into(), case, detail: e }),
            Ok(Ok(vs)) => {
                for (name, v) in vs {
                    if v.accepted() {
                        out.push(Discrepancy { key: format!("C02/{name}/verifier-holds-another-key/accepted"), case: case.clone(), detail: format!("an instance built with another verification key: {name} returned true for a message made under the bundled key") });
                    }
                }
            }
        }
        out
    }
}

impl Prop for C02 {
    fn id(&self) -> &'static str { "C02" }
    fn level(&self) -> &'static str { "exploration" }
    fn run_case(&self, case: &Value) -> Vec<Discrepancy> {
        let r = match Req::from_json(&case["req"]) { Some(r) => r, None => return vec![] };
        if case["kind"] == "other-key" {
            let msg = unhex(case["message_hex"].as_str().unwrap_or(""));
            return match with_rln(|rln| setup_tree(rln, &r)) { Ok(s) => self.other_instance(&r, &msg, &s.root), Err(_) => vec![] };
        }
        let t = match Tamper::from_json(&case["tamper"]) { Some(t) => t, None => return vec![] };
        let msg = unhex(case["message_hex"].as_str().unwrap_or(""));
        if msg.len() != 288 {
            return vec![];
        }
        with_rln(|rln| match setup_tree(rln, &r) {
            Ok(s) => self.judge(rln, &r, &s.root, &msg, &t, case["base"].as_u64().unwrap_or(0) as usize),
            Err(_) => vec![],
        })
    }
    fn explore(&self, ctx: &Ctx, findings: &Findings, ev: &mut Evidence) -> Result<(), String> {
        let q = ctx.tier == Tier::Quick;
        let _ = q;
        let bases = base_requests(true);
        // phase 1: one accepted message per base request
        let proved = par_map(&bases, ncpu(), |_, r| {
            with_rln(|rln| {
                let s = setup_tree(rln, r)?;
                match prove_via(rln, r, &s, Entry::Tree, false) {
                    PResult::Ok(m) if m.len() == 288 => Ok((m, s.root)),
                    other => Err(format!("base request does not prove: {:?}", other)),
                }
            })
        });
        let mut msgs = vec![];
        for (k, p) in proved.into_iter().enumerate() {
            match p {
                Ok(x) => msgs.push(x),
                Err(e) => return Err(format!("base message {k}: {e} (C01's subject; nothing to tamper with)")),
            }
        }
        // an instance holding another key (built after the bundled key has been used in this process)
        findings.report_all(self.other_instance(&bases[0], &msgs[0].0, &msgs[0].1));
        // phase 2: all single tamperings, in chunks; every chunk rebuilds the base's tree on its own instance
        let mut items: Vec<(usize, Vec<Tamper>)> = vec![];
        let mut total = 0usize;
        let mut kinds = std::collections::BTreeSet::new();
        for (b, r) in bases.iter().enumerate() {
            let ts = tampers(r, &msgs[b].0, !q, b);
            total += ts.len();
            for t in &ts {
                kinds.insert(t.kind());
            }
            for ch in ts.chunks(40) {
                items.push((b, ch.to_vec()));
            }
        }
        let res = par_map(&items, ncpu(), |_, (b, ts)| {
            with_rln(|rln| {
                let mut out = vec![];
                if setup_tree(rln, &bases[*b]).is_err() {
                    return out;
                }
                // every chunk starts by verifying the untouched message on this thread (a verifier that keeps state
                // between calls has then seen the original before any altered copy)
                out.extend(self.judge(rln, &bases[*b], &msgs[*b].1, &msgs[*b].0, &Tamper::None, *b));
                for t in ts {
                    out.extend(self.judge(rln, &bases[*b], &msgs[*b].1, &msgs[*b].0, t, *b));
                }
                out
            })
        });
        for r in res {
            findings.report_all(r);
        }
        ev.set("evaluations", json!(total));
        ev.set("distinct_nontrivial", json!(total - bases.len()));
        ev.set("base_messages", json!(bases.len()));
        ev.set("tamper_kinds", json!(kinds));
        ev.set("exhaustive", json!(true));
        ev.set("deviation_bound", json!(1));
        ev.set("rule", json!("for each base message (spread over index/secret/limit/signal/tree-context boundaries): every single alteration out of {each of the 5 public values -> v+1, v-1, 0, 1, p-1, each other field's value; signal -> first/last bit flipped, byte appended/dropped, emptied, replaced; declared length -> len-1, len+1 with extended buffer, 0; every single-bit flip of the 128 proof bytes; for the first base message every single bit of every public value and every pair of bits in two different 64-bit limbs at offsets <= 8 apart (quick) / every pair of bits (thorough), thorough also the limb-pair family on every other base message; each chunk of alterations is preceded on its thread by a verification of the untouched message; verifier tree changed after proving (another leaf set, member deleted / removed by a batch / by a batch with repeated positions / overwritten with the default, append, reset); 6 root sets}; the first base message is also handed to an instance built with another verification key (gamma_g2 and delta_g2 of the bundled key exchanged), which must not accept it; each altered message goes to every verifier the alteration concerns; altered => never true, positive controls (untouched, own root in the set, old root after the tree changed, empty set) => true; distinct_nontrivial = alterations other than 'untouched'"));
        ev.sample(json!({"base": bases[0].to_json(), "tamper": Tamper::Value(3, big(1), "one".into()).to_json()}));
        ev.sample(json!({"base": bases[1].to_json(), "tamper": Tamper::ProofBit(517).to_json()}));
        ev.sample(json!({"base": bases[2].to_json(), "tamper": Tamper::Tree(1).to_json()}));
        ev.assume("soundness of Groth16 and of the bundled key: 'not accepted' is checked on every listed alteration, not proved for arbitrary forgeries");
        ev.assume("panics on malformed buffers are C13's subject and are not judged here (a panic is not 'true')");
        Ok(())
    }
}
