//! Proving requests and messages: building the tree context, proving through every entry point,
//! verifying through every verifier. Shared by C01, C02, C03, C12, C13, C17, C18.
use super::rlnsub::*;
use super::*;
use crate::explore::noderef::CircuitInputs;
use crate::refmodel::codec;
use crate::refmodel::field::*;
use crate::refmodel::keccak;
use crate::refmodel::tree::IdealTree;
use ark_serialize::CanonicalSerialize;
use rln::public::RLN;
use serde_json::json;
use std::io::Cursor;

#[derive(Clone, Debug, PartialEq, Eq)]
pub struct Req {
    pub secret: BigUint,
    pub index: u64,
    pub limit: BigUint,
    pub id: BigUint,
    pub ext: BigUint,
    pub signal: Vec<u8>,
    /// tree context: 0 only this leaf, 1 sibling also set, 2 a 256-leaf batch first, 3 neighbour set then deleted
    pub ctx: u8,
}
impl Req {
    pub fn default_req() -> Req {
        Req { secret: dec("12345678901234567890123456789012345678"), index: 5, limit: big(100), id: big(1), ext: dec("555555555555555555555555555555555555555555"), signal: b"hello".to_vec(), ctx: 0 }
    }
    pub fn to_json(&self) -> Value {
        json!({"secret": self.secret.to_str_radix(10), "index": self.index, "limit": self.limit.to_str_radix(10), "id": self.id.to_str_radix(10),
               "ext": self.ext.to_str_radix(10), "signal_hex": hex(&self.signal), "ctx": self.ctx})
    }
    pub fn from_json(v: &Value) -> Option<Req> {
        Some(Req { secret: bdec(&v["secret"]), index: v["index"].as_u64()?, limit: bdec(&v["limit"]), id: bdec(&v["id"]), ext: bdec(&v["ext"]), signal: unhex(v["signal_hex"].as_str()?), ctx: v["ctx"].as_u64()? as u8 })
    }
    pub fn prove_input(&self) -> Vec<u8> {
        codec::prove_input(&self.secret, self.index, &self.limit, &self.id, &self.ext, &self.signal)
    }
}

pub const CTX_NAMES: [&str; 7] = ["only-this-leaf", "sibling-set", "batch-256-first", "neighbour-set-then-deleted", "proved-then-two-leaves-removed-in-one-batch", "proved-then-range-written", "sibling-chosen-so-that-the-root-has-a-zero-top-byte"];

/// positions of the two extra leaves of contexts 4 and 5 (below 256: batch removal indices are bytes)
pub fn extra_positions(r: &Req) -> (u64, u64) {
    if r.index == 10 || r.index == 11 { (12, 13) } else { (10, 11) }
}

/// Contexts 4 and 5: the member has already been proved once against the tree; then the tree is changed by a
/// batch call (which must not leave anything stale behind) and the member is proved again.
pub fn mutate_after_first_proof(rln: &mut RLN, r: &Req, s: &mut Setup) -> Result<(), String> {
    let (a, b) = extra_positions(r);
    match r.ctx {
        4 => {
            rln.atomic_operation(0, rd(codec::vec_fr(&[])), rd(codec::vec_u8(&[a as u8, b as u8]))).map_err(|e| format!("batch removal failed: {e}"))?;
            s.model.remove(a);
            s.model.remove(b);
        }
        5 => {
            let vs = vec![big(31), big(32), big(33)];
            rln.set_leaves_from(20, rd(codec::vec_fr(&vs))).map_err(|e| format!("range write failed: {e}"))?;
            for (k, v) in vs.iter().enumerate() {
                s.model.set(20 + k as u64, v);
            }
        }
        _ => return Ok(()),
    }
    let (path, bits) = s.model.path(r.index);
    s.ci.path = path;
    s.ci.bits = bits.iter().map(|x| big(*x as u64)).collect();
    s.root = s.model.root();
    Ok(())
}

pub struct Setup {
    pub model: IdealTree,
    pub ci: CircuitInputs,
    pub root: BigUint,
}

fn rd(b: Vec<u8>) -> Cursor<Vec<u8>> {
    Cursor::new(b)
}

/// Puts the member's rate commitment at `index` in a fresh tree of the instance, with the chosen
/// surroundings; returns the ideal tree and the reference witness inputs.
pub fn setup_tree(rln: &mut RLN, r: &Req) -> Result<Setup, String> {
    let e = |x: color_eyre::Result<()>| x.map_err(|e| format!("tree setup failed: {e}"));
    e(rln.set_tree(DEPTH))?;
    let mut model = IdealTree::new(DEPTH);
    let rate = rate_commitment(&r.secret, &r.limit);
    let cap = 1u64 << DEPTH;
    if r.index >= cap {
        return Err("index outside the tree".into());
    }
    let nb = r.index ^ 1;
    let other = dec("424242424242424242424242");
    match r.ctx {
        1 => {
            e(rln.set_leaf(nb as usize, rd(codec::fr(&other))))?;
            model.set(nb, &other);
        }
        2 => {
            let leaves: Vec<BigUint> = (0..256u64).map(|k| big(1_000_000 + k)).collect();
            e(rln.set_leaves_from(0, rd(codec::vec_fr(&leaves))))?;
            for (k, v) in leaves.iter().enumerate() {
                model.set(k as u64, v);
            }
        }
        6 => {
            // search (on the ideal tree) for a sibling value that makes the root smaller than 2^248
            let mut k = 0u64;
            let v = loop {
                let cand = big(9_000_000 + k);
                let mut t = IdealTree::new(DEPTH);
                t.set(nb, &cand);
                t.set(r.index, &rate);
                if t.root() < pow2(248) || k > 2000 {
                    break cand;
                }
                k += 1;
            };
            e(rln.set_leaf(nb as usize, rd(codec::fr(&v))))?;
            model.set(nb, &v);
        }
        4 | 5 => {
            let (a, b) = extra_positions(r);
            for (k, pos) in [a, b].iter().enumerate() {
                let v = big(77_000 + k as u64);
                e(rln.set_leaf(*pos as usize, rd(codec::fr(&v))))?;
                model.set(*pos, &v);
            }
        }
        3 => {
            // the neighbour is written first (so that it lies below the leaf count when index is even, the
            // member's own leaf is written before the deletion)
            e(rln.set_leaf(nb as usize, rd(codec::fr(&other))))?;
            model.set(nb, &other);
        }
        _ => {}
    }
    e(rln.set_leaf(r.index as usize, rd(codec::fr(&rate))))?;
    model.set(r.index, &rate);
    if r.ctx == 3 {
        e(rln.delete_leaf(nb as usize))?;
        model.remove(nb);
    }
    let (path, bits) = model.path(r.index);
    let ci = CircuitInputs {
        secret: r.secret.clone(),
        limit: r.limit.clone(),
        id: r.id.clone(),
        path,
        bits: bits.iter().map(|b| big(*b as u64)).collect(),
        x: keccak::hash_to_field(&r.signal),
        ext: r.ext.clone(),
    };
    let root = model.root();
    Ok(Setup { model, ci, root })
}

#[derive(Clone, Debug, PartialEq, Eq)]
pub enum PResult {
    Ok(Vec<u8>),
    Err(String),
    Panic(String),
}

#[derive(Clone, Copy, Debug, PartialEq, Eq)]
pub enum Entry {
    /// RLN::generate_rln_proof from the tree state
    Tree,
    /// RLN::get_serialized_rln_witness then RLN::generate_rln_proof_with_witness
    Witness,
    /// RLN::prove (raw) on the witness bytes; the message is completed with the reference values
    Raw,
    /// protocol::generate_proof_with_witness on an externally computed witness vector
    External,
}
pub const ENTRIES: [Entry; 4] = [Entry::Tree, Entry::Witness, Entry::Raw, Entry::External];
impl Entry {
    pub fn name(&self) -> &'static str {
        match self {
            Entry::Tree => "generate_rln_proof",
            Entry::Witness => "generate_rln_proof_with_witness",
            Entry::Raw => "prove",
            Entry::External => "generate_proof_with_witness",
        }
    }
}

/// external witness vector: from zerokit's own graph (quick) or from the reference generator
pub fn external_vector(ci: &CircuitInputs, use_node: bool) -> Result<Result<Vec<num_bigint::BigInt>, String>, String> {
    if use_node {
        let verif = std::path::PathBuf::from(std::env::var("ZKV_VERIF").unwrap_or_else(|_| "/verif".into()));
        match node_witness(&verif, ci)? {
            Ok(w) => Ok(Ok(w.into_iter().map(num_bigint::BigInt::from).collect())),
            Err(e) => Ok(Err(e)),
        }
    } else {
        match guard(|| rln::circuit::calculate_rln_witness(named_inputs(ci), rln::circuit::graph_from_folder())) {
            Ok(w) => Ok(Ok(w.iter().map(|f| num_bigint::BigInt::from(from_fr(f))).collect())),
            Err(p) => Ok(Err(format!("panic: {p}"))),
        }
    }
}

/// Prove through one entry point. The tree must have been set up for `r`.
pub fn prove_via(rln: &mut RLN, r: &Req, s: &Setup, entry: Entry, use_node: bool) -> PResult {
    let res = guard(|| -> Result<Vec<u8>, String> {
        match entry {
            Entry::Tree => {
                let mut o = Cursor::new(Vec::<u8>::new());
                rln.generate_rln_proof(rd(r.prove_input()), &mut o).map_err(|e| e.to_string())?;
                Ok(o.into_inner())
            }
            Entry::Witness => {
                let w = rln.get_serialized_rln_witness(rd(r.prove_input())).map_err(|e| format!("get_serialized_rln_witness: {e}"))?;
                let mut o = Cursor::new(Vec::<u8>::new());
                rln.generate_rln_proof_with_witness(rd(w), &mut o).map_err(|e| e.to_string())?;
                Ok(o.into_inner())
            }
            Entry::Raw => {
                let w = witness_bytes(&s.ci);
                let mut o = Cursor::new(Vec::<u8>::new());
                rln.prove(rd(w), &mut o).map_err(|e| e.to_string())?;
                let mut m = o.into_inner();
                m.extend(codec::proof_values(&ref_values(&s.ci)));
                Ok(m)
            }
            Entry::External => {
                let v = external_vector(&s.ci, use_node)?.map_err(|e| format!("no witness vector: {e}"))?;
                let proof = rln::protocol::generate_proof_with_witness(v, rln::circuit::zkey_from_folder()).map_err(|e| e.to_string())?;
                let mut m = vec![];
                proof.serialize_compressed(&mut m).map_err(|e| e.to_string())?;
                m.extend(codec::proof_values(&ref_values(&s.ci)));
                Ok(m)
            }
        }
    });
    match res {
        Ok(Ok(b)) => PResult::Ok(b),
        Ok(Err(e)) => PResult::Err(e),
        Err(p) => PResult::Panic(p),
    }
}

#[derive(Clone, Debug, PartialEq, Eq)]
pub enum VResult {
    True,
    False,
    Err(String),
    Panic(String),
}
impl VResult {
    pub fn accepted(&self) -> bool {
        matches!(self, VResult::True)
    }
    pub fn short(&self) -> String {
        match self {
            VResult::True => "true".into(),
            VResult::False => "false".into(),
            VResult::Err(e) => format!("error({})", e.chars().take(60).collect::<String>()),
            VResult::Panic(p) => format!("panic({})", p.chars().take(90).collect::<String>()),
        }
    }
}
fn vres(r: Result<color_eyre::Result<bool>, String>) -> VResult {
    match r {
        Ok(Ok(true)) => VResult::True,
        Ok(Ok(false)) => VResult::False,
        Ok(Err(e)) => VResult::Err(e.to_string()),
        Err(p) => VResult::Panic(p),
    }
}

/// message bytes ‖ signal length ‖ signal
pub fn with_signal(msg: &[u8], signal: &[u8]) -> Vec<u8> {
    codec::verify_input(msg, signal)
}
pub fn v_tree(rln: &RLN, input: &[u8]) -> VResult {
    vres(guard(|| rln.verify_rln_proof(rd(input.to_vec()))))
}
pub fn v_roots(rln: &RLN, input: &[u8], roots: &[u8]) -> VResult {
    vres(guard(|| rln.verify_with_roots(rd(input.to_vec()), rd(roots.to_vec()))))
}
pub fn v_raw(rln: &RLN, msg: &[u8]) -> VResult {
    vres(guard(|| rln.verify(rd(msg.to_vec()))))
}

/// the four positive verifications of C01 for a message produced against the current tree
pub fn verify_all(rln: &RLN, msg: &[u8], signal: &[u8], root: &BigUint) -> Vec<(&'static str, VResult)> {
    let input = with_signal(msg, signal);
    vec![
        ("verify_rln_proof", v_tree(rln, &input)),
        ("verify_with_roots[root]", v_roots(rln, &input, &codec::fr(root))),
        ("verify_with_roots[]", v_roots(rln, &input, &[])),
        ("verify", v_raw(rln, msg)),
    ]
}

/// signals of the E2 alphabet
pub fn signal_alphabet(thorough: bool) -> Vec<Vec<u8>> {
    let mut v: Vec<Vec<u8>> = vec![b"hello".to_vec(), vec![], vec![0u8], vec![b'a'; 135], vec![b'a'; 136], vec![b'a'; 137], (0..1000u32).map(|k| (k % 251) as u8).collect()];
    if thorough {
        v.push((0..65536u32).map(|k| (k % 253) as u8).collect());
        v.push(vec![b'a'; 272]);
    }
    v
}
