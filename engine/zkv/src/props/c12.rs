//! C12 — proving never returns an unverifiable proof and never crashes.
//! Requests from the valid AND the invalid region; the reference generator partitions them.
use super::msg::*;
use super::rlnsub::*;
use super::*;
use crate::explore::noderef::CircuitInputs;
use crate::refmodel::codec;
use crate::refmodel::field::*;
use serde_json::json;
use std::io::Cursor;

pub struct C12;

/// One proving request at byte level.
#[derive(Clone, Debug)]
pub struct Case {
    /// "request" (generate_rln_proof), "witness" (generate_rln_proof_with_witness), "raw" (prove)
    pub entry: String,
    /// what was made invalid (class key component)
    pub class: String,
    /// the base request that defines the tree
    pub req: Req,
    /// the bytes handed to the entry point
    pub bytes: Vec<u8>,
    /// the circuit inputs these bytes decode to, when they decode at all
    pub ci: Option<CircuitInputs>,
}
impl Case {
    fn to_json(&self) -> Value {
        json!({"entry": self.entry, "class": self.class, "req": self.req.to_json(), "bytes_hex": hex(&self.bytes), "ci": self.ci.as_ref().map(|c| c.to_json())})
    }
    fn from_json(v: &Value) -> Option<Case> {
        Some(Case { entry: v["entry"].as_str()?.into(), class: v["class"].as_str()?.into(), req: Req::from_json(&v["req"])?, bytes: unhex(v["bytes_hex"].as_str()?), ci: CircuitInputs::from_json(&v["ci"]) })
    }
}

fn bad_limit_ids() -> Vec<(BigUint, BigUint, &'static str)> {
    vec![
        (big(100), big(100), "id-eq-limit"),
        (big(100), big(101), "id-gt-limit"),
        (big(1), big(1), "id-eq-limit"),
        (big(0), big(0), "limit-zero"),
        (big(65536), big(65536), "id-eq-limit-17-bits"),
        (big(65537), big(0), "limit-above-range"),
        (big(70000), big(5), "limit-above-range-id-small"),
        (big(70000), big(65535), "limit-above-range-id-max"),
        (big(70000), big(65536), "id-17-bits-below-limit"),
        (p() - big(1), big(0), "limit-p-minus-1"),
        (p() - big(1), p() - big(2), "id-p-minus-2"),
    ]
}

fn request_cases(base: &Req, thorough: bool) -> Vec<Case> {
    let mut v = vec![];
    // the tree is set up for `r` when it is a well-formed request (so that a changed limit is the member's
    // registered limit), for the base request otherwise
    let mk = |class: &str, r: &Req, bytes: Vec<u8>, ci_from: Option<&Req>| Case { entry: "request".into(), class: class.into(), req: if ci_from.is_some() { r.clone() } else { base.clone() }, bytes, ci: ci_from.map(|_| CircuitInputs { secret: r.secret.clone(), limit: r.limit.clone(), id: r.id.clone(), path: vec![], bits: vec![], x: big(0), ext: r.ext.clone() }) };
    v.push(mk("valid", base, base.prove_input(), Some(base)));
    for (l, i, name) in bad_limit_ids() {
        let r = Req { limit: l, id: i, ..base.clone() };
        v.push(mk(name, &r, r.prove_input(), Some(&r)));
    }
    // well-formed requests of somebody who is NOT the member stored at the position (another limit, another secret, an
    // empty position): the tree is the base request's; whatever is returned must carry a proof that verifies with the
    // values returned with it (`verify`), the tree-bound verifier is not consulted
    for (class, r) in [
        ("limit-not-the-registered-one", Req { limit: big(50), id: big(1), ..base.clone() }),
        ("limit-not-the-registered-one-larger", Req { limit: big(1000), id: big(999), ..base.clone() }),
        ("secret-not-the-registered-one", Req { secret: &base.secret + big(1), ..base.clone() }),
        ("position-holds-nobody", Req { index: base.index ^ 4, ..base.clone() }),
        ("position-holds-nobody-far", Req { index: (base.index + (1 << 18)) % (1 << 20), ..base.clone() }),
    ] {
        v.push(Case { entry: "request-foreign".into(), class: class.into(), req: base.clone(), bytes: r.prove_input(), ci: None });
    }
    for idx in [1u64 << 20, (1 << 20) + 1, 1 << 32, 1 << 63, u64::MAX] {
        let r = Req { index: idx, ..base.clone() };
        v.push(mk("index-outside-tree", &r, r.prove_input(), None));
    }
    let full = base.prove_input();
    let siglen_off = 32 + 8 + 32 + 32 + 32;
    for (n, name) in [(base.signal.len() as u64 + 1, "declared-length-plus-1"), (1u64 << 63, "declared-length-2^63"), (u64::MAX, "declared-length-max"), (u64::MAX - 170, "declared-length-wraps")] {
        let mut b = full.clone();
        b[siglen_off..siglen_off + 8].copy_from_slice(&n.to_le_bytes());
        v.push(mk(name, base, b, None));
    }
    let _ = thorough;
    let step = 1;
    for cut in (0..full.len()).step_by(step) {
        v.push(mk("truncated", base, full[..cut].to_vec(), None));
    }
    let mut b = full.clone();
    b.push(7);
    v.push(mk("trailing-byte", base, b, Some(base)));
    if thorough {
        // two departures at once: every invalid (limit, id) pair x every out-of-tree index x every declared length anomaly
        for (l, i, _) in bad_limit_ids() {
            for idx in [base.index, 1u64 << 20, u64::MAX] {
                for (n, lname) in [(base.signal.len() as u64, "len-ok"), (base.signal.len() as u64 + 1, "len-plus-1"), (u64::MAX, "len-max")] {
                    if idx == base.index && lname == "len-ok" {
                        continue;
                    }
                    let r = Req { limit: l.clone(), id: i.clone(), index: idx, ..base.clone() };
                    let mut b = r.prove_input();
                    b[siglen_off..siglen_off + 8].copy_from_slice(&n.to_le_bytes());
                    v.push(mk("two-departures", &r, b, None));
                }
            }
        }
    }
    v
}

fn witness_cases(base: &Req, s: &Setup, thorough: bool) -> Vec<Case> {
    let mut v = vec![];
    for entry in ["witness", "raw"] {
        let mk = |class: &str, ci: &CircuitInputs, bytes: Vec<u8>, decodes: bool| Case { entry: entry.into(), class: class.into(), req: base.clone(), bytes, ci: if decodes { Some(ci.clone()) } else { None } };
        v.push(mk("valid", &s.ci, witness_bytes(&s.ci), true));
        for (l, i, name) in bad_limit_ids() {
            let mut ci = s.ci.clone();
            ci.limit = l;
            ci.id = i;
            v.push(mk(name, &ci, witness_bytes(&ci), true));
        }
        for n in [0usize, 1, 19, 21] {
            let mut ci = s.ci.clone();
            ci.path.resize(n, big(3));
            ci.bits.resize(n, big(0));
            v.push(mk(&format!("path-length-{n}"), &ci, witness_bytes(&ci), false));
            let mut ci = s.ci.clone();
            ci.bits.resize(n, big(0));
            v.push(mk(&format!("direction-vector-length-{n}"), &ci, witness_bytes(&ci), false));
            let mut ci = s.ci.clone();
            ci.path.resize(n, big(3));
            v.push(mk(&format!("element-vector-length-{n}"), &ci, witness_bytes(&ci), false));
        }
        // every pair of (element count, direction count), also pairs whose totals compensate
        for n in [0usize, 1, 19, 20, 21, 39, 40] {
            for m in [0usize, 1, 19, 20, 21, 39, 40] {
                if n == 20 && m == 20 {
                    continue;
                }
                let mut ci = s.ci.clone();
                ci.path.resize(n, big(3));
                ci.bits.resize(m, big(0));
                v.push(mk(&format!("vector-lengths-{n}-{m}"), &ci, witness_bytes(&ci), false));
            }
        }
        for lvl in [0usize, 10, 19] {
            for val in [2u64, 3, 255] {
                let mut ci = s.ci.clone();
                ci.bits[lvl] = big(val);
                v.push(mk("direction-value-not-binary", &ci, witness_bytes(&ci), true));
            }
        }
        let full = witness_bytes(&s.ci);
        let step = 1;
        for cut in (0..full.len()).step_by(step) {
            v.push(mk("truncated", &s.ci, full[..cut].to_vec(), false));
        }
        for extra in [1usize, 32] {
            let mut b = full.clone();
            b.extend(vec![0u8; extra]);
            v.push(mk("trailing-bytes", &s.ci, b, false));
        }
        // count fields that promise more than the buffer holds
        for (off, name) in [(96usize, "element-count-huge"), (96 + 8 + 20 * 32, "direction-count-huge")] {
            for n in [21u64, 1 << 32, 1 << 59, u64::MAX] {
                let mut b = full.clone();
                b[off..off + 8].copy_from_slice(&n.to_le_bytes());
                v.push(mk(name, &s.ci, b, false));
            }
        }
    }
    v
}

impl C12 {
    /// valid requests in a tree that changes between proofs: prove, change the tree (another member's leaf
    /// written / removed, a batch removal, a range write, depending on the context), prove again for the same
    /// member, undo the change, prove a third time; every message returned must verify
    fn sequence(&self, c: &Case) -> Vec<Discrepancy> {
        let mut out = vec![];
        let key = |sym: &str| format!("C12/{}/{}/{}", c.entry, c.class, sym);
        let entry = if c.entry == "witness-seq" { Entry::Witness } else { Entry::Tree };
        let res = with_rln(|rln| -> Result<Vec<(usize, String)>, String> {
            let mut bad = vec![];
            let mut s = setup_tree(rln, &c.req)?;
            let other = c.req.index ^ 2;
            for step in 0..3usize {
                match step {
                    1 => {
                        if matches!(c.req.ctx, 4 | 5) {
                            mutate_after_first_proof(rln, &c.req, &mut s)?;
                        } else {
                            rln.set_leaf(other as usize, Cursor::new(codec::fr(&big(555)))).map_err(|e| e.to_string())?;
                        }
                    }
                    2 => {
                        rln.delete_leaf(other as usize).map_err(|e| e.to_string())?;
                        if matches!(c.req.ctx, 4 | 5) {
                            rln.set_leaf(other as usize, Cursor::new(codec::fr(&big(556)))).map_err(|e| e.to_string())?;
                        }
                    }
                    _ => {}
                }
                match prove_via(rln, &c.req, &s, entry, false) {
                    PResult::Panic(pn) => bad.push((step, format!("panic: {pn}"))),
                    PResult::Err(e) => bad.push((step, format!("refused: {e}"))),
                    PResult::Ok(m) => {
                        if m.len() != 288 {
                            bad.push((step, format!("unverifiable: {} bytes returned", m.len())));
                            continue;
                        }
                        let v1 = v_raw(rln, &m[..288]);
                        let v2 = v_tree(rln, &with_signal(&m[..288], &c.req.signal));
                        if !v1.accepted() || !v2.accepted() {
                            bad.push((step, format!("unverifiable: verify={} verify_rln_proof={}", v1.short(), v2.short())));
                        }
                    }
                }
            }
            Ok(bad)
        });
        match res {
            Err(e) => {
                discard_rln();
                out.push(Discrepancy { key: key("setup-error"), case: c.to_json(), detail: e });
            }
            Ok(bad) => {
                for (step, what) in bad {
                    let sym = if what.starts_with("panic") { discard_rln(); "panic" } else if what.starts_with("refused") { "valid-request-refused" } else { "ok-but-unverifiable" };
                    out.push(Discrepancy { key: key(sym), case: c.to_json(), detail: format!("proof number {} of the sequence (0 = before the tree changed, 1 = after the change, 2 = after a further change): {what}", step) });
                }
            }
        }
        out
    }
    fn one(&self, c: &Case) -> Vec<Discrepancy> {
        if c.entry.ends_with("-seq") {
            return self.sequence(c);
        }
        let mut out = vec![];
        let key = |sym: &str| format!("C12/{}/{}/{}", c.entry, c.class, sym);
        let res = with_rln(|rln| -> Result<(PResult, Option<VResult>, Option<VResult>), String> {
            let s = setup_tree(rln, &c.req)?;
            let rd = |b: Vec<u8>| Cursor::new(b);
            let r = guard(|| -> Result<Vec<u8>, String> {
                let mut o = Cursor::new(Vec::<u8>::new());
                match c.entry.as_str() {
                    "request" | "request-foreign" => rln.generate_rln_proof(rd(c.bytes.clone()), &mut o).map_err(|e| e.to_string())?,
                    "witness" => rln.generate_rln_proof_with_witness(rd(c.bytes.clone()), &mut o).map_err(|e| e.to_string())?,
                    _ => rln.prove(rd(c.bytes.clone()), &mut o).map_err(|e| e.to_string())?,
                }
                Ok(o.into_inner())
            });
            let p = match r {
                Ok(Ok(b)) => PResult::Ok(b),
                Ok(Err(e)) => PResult::Err(e),
                Err(pn) => PResult::Panic(pn),
            };
            let mut v1 = None;
            let mut v2 = None;
            if let PResult::Ok(m) = &p {
                let mut msg = m.clone();
                if c.entry == "raw" {
                    // the raw prover returns only the proof: complete it with the public values of the witness
                    if let Some(ci) = &c.ci {
                        if ci.path.len() == ci.bits.len() {
                            msg.extend(codec::proof_values(&ref_values(ci)));
                        }
                    }
                }
                if msg.len() >= 288 {
                    v1 = Some(v_raw(rln, &msg[..288]));
                    if c.entry == "request" {
                        v2 = Some(v_tree(rln, &with_signal(&msg[..288], &c.req.signal)));
                    }
                }
            }
            let _ = s;
            Ok((p, v1, v2))
        });
        let (p, v1, v2) = match res {
            Ok(x) => x,
            Err(e) => {
                discard_rln();
                return vec![Discrepancy { key: key("setup-error"), case: c.to_json(), detail: e }];
            }
        };
        match &p {
            PResult::Panic(pn) => {
                discard_rln();
                out.push(Discrepancy { key: key("panic"), case: c.to_json(), detail: format!("the prover panicked: {pn}") });
            }
            PResult::Err(_) => {
                if c.class == "valid" {
                    out.push(Discrepancy { key: key("valid-request-refused"), case: c.to_json(), detail: format!("{:?}", p) });
                }
            }
            PResult::Ok(m) => {
                let ok_len = if c.entry == "raw" { m.len() == 128 } else { m.len() == 288 };
                let accepted = v1.as_ref().map(|v| v.accepted()).unwrap_or(false) && v2.as_ref().map(|v| v.accepted()).unwrap_or(true);
                if !ok_len || !accepted {
                    out.push(Discrepancy { key: key("ok-but-unverifiable"), case: c.to_json(), detail: format!("the prover reported success ({} bytes) but verification says: verify={} verify_rln_proof={}", m.len(), v1.map(|v| v.short()).unwrap_or("-".into()), v2.map(|v| v.short()).unwrap_or("-".into())) });
                }
            }
        }
        out
    }
}

impl Prop for C12 {
    fn id(&self) -> &'static str { "C12" }
    fn level(&self) -> &'static str { "exploration" }
    fn run_case(&self, case: &Value) -> Vec<Discrepancy> {
        match Case::from_json(case) {
            Some(c) => self.one(&c),
            None => vec![],
        }
    }
    fn explore(&self, ctx: &Ctx, findings: &Findings, ev: &mut Evidence) -> Result<(), String> {
        let q = ctx.tier == Tier::Quick;
        let d = Req::default_req();
        let mut bases = vec![d.clone(), Req { index: (1 << 20) - 1, signal: vec![], secret: p() - big(1), ..d.clone() }];
        if !q {
            bases.push(Req { index: 1 << 19, signal: vec![b'a'; 137], ctx: 1, ..d.clone() });
            bases.push(Req { index: 0, ext: big(0), ctx: 2, ..d });
        }
        let mut cases = vec![];
        for b in &bases {
            cases.extend(request_cases(b, !q));
            let s = with_rln(|rln| setup_tree(rln, b))?;
            cases.extend(witness_cases(b, &s, !q));
        }
        // valid requests proved repeatedly while the tree changes in between
        let mut nseq = 0usize;
        for b in bases.iter().take(2) {
            for ctxn in 0u8..=6 {
                for entry in ["request-seq", "witness-seq"] {
                    let r = Req { ctx: ctxn, ..b.clone() };
                    cases.push(Case { entry: entry.into(), class: "valid".into(), req: r, bytes: vec![], ci: None });
                    nseq += 1;
                }
            }
        }
        // partition by the reference generator (evidence only: the oracle does not need it)
        let verif = ctx.verif_dir.clone();
        let part = par_map(&cases, ncpu(), |_, c| match &c.ci {
            Some(ci) if ci.path.len() == 20 && ci.bits.len() == 20 => match node_witness(&verif, ci) { Ok(Ok(_)) => 1u8, Ok(Err(_)) => 2, Err(_) => 3 },
            Some(_) => 2,
            None => 0,
        });
        let res = par_map(&cases, ncpu(), |_, c| self.one(c));
        let mut classes = std::collections::BTreeSet::new();
        for (c, r) in cases.iter().zip(res.into_iter()) {
            classes.insert(format!("{}/{}", c.entry, c.class));
            findings.report_all(r);
        }
        let sat = part.iter().filter(|x| **x == 1).count();
        let unsat = part.iter().filter(|x| **x == 2).count();
        let undec = part.iter().filter(|x| **x == 0).count();
        ev.set("evaluations", json!(cases.len()));
        ev.set("distinct_nontrivial", json!(cases.iter().filter(|c| c.class != "valid").count()));
        ev.set("satisfiable_per_reference", json!(sat));
        ev.set("unsatisfiable_per_reference", json!(unsat));
        ev.set("undecodable_or_no_circuit_inputs", json!(undec));
        ev.set("request_classes", json!(classes));
        ev.set("valid_sequences_with_tree_changes", json!(nseq));
        ev.set("exhaustive", json!(true));
        ev.set("deviation_bound", json!(1));
        ev.set("rule", json!("for each base request: every single departure into the invalid region - (limit,id) in 11 pairs around the comparison and the 16-bit range, index in {2^20, 2^20+1, 2^32, 2^63, 2^64-1}, declared signal length in {len+1, 2^63, 2^64-1, wrapping}, every (quick: every 3rd) truncation of the request, trailing byte; at witness level for generate_rln_proof_with_witness and prove: the same (limit,id) pairs, path / direction vector lengths {0,1,19,21} (together and separately), direction values {2,3,255} at levels {0,10,19}, every (quick: every 7th) truncation, trailing bytes, count fields larger than the buffer; valid requests in 7 tree contexts proved three times through generate_rln_proof and through get_serialized_rln_witness + generate_rln_proof_with_witness with the tree changed between the proofs; the result must be an error or a message that verifies; success with an unverifiable proof and panics are violations; distinct_nontrivial = cases other than the valid controls"));
        for c in cases.iter().filter(|c| c.class != "truncated").step_by(17).take(5) {
            let mut j = c.to_json();
            j.as_object_mut().unwrap().remove("bytes_hex");
            ev.sample(j);
        }
        ev.assume("Groth16 soundness: a proof for an unsatisfiable request cannot verify, so 'Ok' on such a request is reported as ok-but-unverifiable after the verifier said false");
        Ok(())
    }
}
