//! C03 — double-signalling always exposes the identity secret.
use super::msg::*;
use super::rlnsub::*;
use super::*;
use crate::explore::noderef::CircuitInputs;
use crate::refmodel::codec;
use crate::refmodel::field::*;
use crate::refmodel::keccak;
use rln::protocol::{deserialize_witness, proof_values_from_witness, serialize_proof_values};
use rln::public::RLN;
use serde_json::json;
use std::io::Cursor;

pub struct C03;

#[derive(Clone, Debug, PartialEq, Eq)]
enum Rec {
    Bytes(Vec<u8>),
    Err(String),
    Panic(String),
}

fn recover(rln: &RLN, m1: &[u8], m2: &[u8]) -> Rec {
    let r = guard(|| {
        let mut o = Cursor::new(Vec::<u8>::new());
        rln.recover_id_secret(Cursor::new(m1.to_vec()), Cursor::new(m2.to_vec()), &mut o).map(|_| o.into_inner())
    });
    match r {
        Ok(Ok(b)) => Rec::Bytes(b),
        Ok(Err(e)) => Rec::Err(e.to_string()),
        Err(p) => Rec::Panic(p),
    }
}

/// message = 128 placeholder bytes ‖ public values computed by zerokit from a witness
fn cheap_message(ci: &CircuitInputs) -> Result<Vec<u8>, String> {
    let wb = witness_bytes(ci);
    let v = guard(|| deserialize_witness(&wb).map_err(|e| e.to_string()).and_then(|(w, _)| proof_values_from_witness(&w).map_err(|e| e.to_string()))).map_err(|p| format!("panic: {p}"))??;
    let mut m = vec![0u8; 128];
    m.extend(serialize_proof_values(&v));
    Ok(m)
}
fn nullifier_of(m: &[u8]) -> Vec<u8> {
    m[128 + 128..128 + 160].to_vec()
}

fn inputs(secret: &BigUint, ext: &BigUint, id: &BigUint, x: &BigUint) -> CircuitInputs {
    let mut ci = default_inputs();
    ci.secret = secret.clone();
    ci.ext = ext.clone();
    ci.id = id.clone();
    ci.limit = if *id < big(100) { big(100) } else { big(65536) };
    ci.x = x.clone();
    ci
}

impl C03 {
    /// one (secret, ext, id, x1, x2) tuple on the cheap path
    fn pair(&self, rln: &RLN, secret: &BigUint, ext: &BigUint, id: &BigUint, x1: &BigUint, x2: &BigUint, how: &str) -> Vec<Discrepancy> {
        let mut out = vec![];
        let case = json!({"kind":"pair","secret":sdec(secret),"ext":sdec(ext),"id":sdec(id),"x1":sdec(x1),"x2":sdec(x2),"how":how});
        let (m1, m2) = match (cheap_message(&inputs(secret, ext, id, x1)), cheap_message(&inputs(secret, ext, id, x2))) {
            (Ok(a), Ok(b)) => (a, b),
            (a, b) => {
                out.push(Discrepancy { key: format!("C03/{how}/values/error"), case, detail: format!("public values could not be computed: {:?} {:?}", a.err(), b.err()) });
                return out;
            }
        };
        // the published values are the reference ones (shares on the line, nullifier of the slope)
        let want1 = codec::proof_values(&ref_values(&inputs(secret, ext, id, x1)));
        if m1[128..] != want1[..] {
            out.push(Discrepancy { key: format!("C03/{how}/values/wrong"), case: case.clone(), detail: "share / nullifier differ from y = s + x*H(s,e,m), H(H(s,e,m))".into() });
        }
        if nullifier_of(&m1) != nullifier_of(&m2) {
            out.push(Discrepancy { key: format!("C03/{how}/nullifier/differs"), case: case.clone(), detail: "two messages of the same (secret, external nullifier, message id) carry different nullifiers".into() });
        }
        let r = recover(rln, &m1, &m2);
        if x1 != x2 {
            match &r {
                Rec::Bytes(b) if *b == codec::fr(secret) => {}
                other => out.push(Discrepancy { key: format!("C03/{how}/recover/{}", match other { Rec::Panic(_) => "panic", Rec::Err(_) => "error", _ => "wrong-secret" }), case: case.clone(), detail: format!("recovery from two different shares returned {:?}, expected the secret {}", short(other), secret) }),
            }
        } else {
            // identical shares: an error or an empty result, never a crash, never a "secret"
            match &r {
                Rec::Err(_) => {}
                Rec::Bytes(b) if b.is_empty() => {}
                other => out.push(Discrepancy { key: format!("C03/{how}/degenerate/{}", match other { Rec::Panic(_) => "panic", _ => "reports-a-secret" }), case: case.clone(), detail: format!("recovery from two identical shares returned {:?}", short(other)) }),
            }
        }
        out
    }
    /// A sequence of recoveries on a fresh thread with an instance of its own. codes: 0 two shares of secret A,
    /// 1 two shares of secret B, 2 the same share of A twice (no secret), 3 shares of different epochs (no output),
    /// 4 a truncated first message (refused), 5 two shares of A in another epoch, in the other order. Every recovery
    /// is judged as when made alone.
    fn seq(&self, codes: &[u8]) -> Vec<Discrepancy> {
        let case = json!({"kind":"seq","calls":codes});
        let codes: Vec<u8> = codes.to_vec();
        std::thread::spawn(move || {
            let (sa, sb) = (dec("1234567890123456789012345678901234567890"), p() - big(7));
            let (xa, xb) = (big(11), pow2(200) + big(13));
            let first = with_rln(|rln| {
                for (k, c) in codes.iter().enumerate() {
                    let d = match c {
                        0 => C03.pair(rln, &sa, &big(5), &big(1), &xa, &xb, "sequence"),
                        1 => C03.pair(rln, &sb, &big(5), &big(1), &xa, &xb, "sequence"),
                        2 => C03.pair(rln, &sa, &big(5), &big(1), &xa, &xa, "sequence"),
                        3 => C03.crafted(rln, "different-external-nullifier"),
                        4 => {
                            match cheap_message(&inputs(&sa, &big(5), &big(1), &xa)) {
                                Ok(m) => match recover(rln, &m[..100], &m) {
                                    Rec::Panic(pn) => vec![Discrepancy { key: "C03/sequence/truncated/panic".into(), case: json!({}), detail: pn }],
                                    Rec::Bytes(b) if !b.is_empty() => vec![Discrepancy { key: "C03/sequence/truncated/reports-a-secret".into(), case: json!({}), detail: "a truncated message yields a secret".into() }],
                                    _ => vec![],
                                },
                                Err(e) => vec![Discrepancy { key: "C03/sequence/values/error".into(), case: json!({}), detail: e }],
                            }
                        }
                        _ => C03.pair(rln, &sa, &(p() - big(1)), &big(99), &xb, &xa, "sequence"),
                    };
                    if let Some(x) = d.into_iter().next() {
                        return Some((k, x));
                    }
                }
                None
            });
            match first {
                None => vec![],
                Some((k, d)) => {
                    if d.key.ends_with("/panic") {
                        discard_rln();
                    }
                    let tail: Vec<&str> = d.key.split('/').skip(2).collect();
                    vec![Discrepancy { key: format!("C03/after-other-calls/{}", tail.join("/")), case, detail: format!("recovery number {k} of the sequence: {}", d.detail) }]
                }
            }
        }).join().unwrap_or_default()
    }
    /// crafted (x,y) pairs and cross-nullifier cases
    fn crafted(&self, rln: &RLN, which: &str) -> Vec<Discrepancy> {
        let mut out = vec![];
        let case = json!({"kind":"crafted","which":which});
        let mk = |ext: &BigUint, x: &BigUint, y: &BigUint| {
            let mut m = vec![0u8; 128];
            m.extend(codec::proof_values(&codec::ProofValues { root: big(1), ext: ext.clone(), x: x.clone(), y: y.clone(), nullifier: big(2) }));
            m
        };
        let (m1, m2, expect_empty_ok) = match which {
            "same-x-different-y" => (mk(&big(5), &big(9), &big(10)), mk(&big(5), &big(9), &big(11)), false),
            "same-x-same-y" => (mk(&big(5), &big(9), &big(10)), mk(&big(5), &big(9), &big(10)), false),
            "all-zero" => (mk(&big(0), &big(0), &big(0)), mk(&big(0), &big(0), &big(0)), false),
            "x-zero-and-p-minus-1" => (mk(&big(5), &big(0), &big(3)), mk(&big(5), &(p() - big(1)), &big(3)), false),
            "different-external-nullifier" => (mk(&big(5), &big(9), &big(10)), mk(&big(6), &big(8), &big(11)), true),
            "external-nullifiers-differ-in-high-bytes-only" => (mk(&(big(5) + pow2(100)), &big(9), &big(10)), mk(&(big(5) + pow2(100) + pow2(200)), &big(8), &big(11)), true),
            "external-nullifiers-differ-in-low-byte-only" => (mk(&(pow2(250) + big(5)), &big(9), &big(10)), mk(&(pow2(250) + big(6)), &big(8), &big(11)), true),
            _ => return out,
        };
        let r = recover(rln, &m1, &m2);
        match which {
            "different-external-nullifier" | "external-nullifiers-differ-in-high-bytes-only" | "external-nullifiers-differ-in-low-byte-only" => {
                let _ = expect_empty_ok;
                if r != Rec::Bytes(vec![]) {
                    out.push(Discrepancy { key: format!("C03/crafted/{which}/{}", if matches!(r, Rec::Panic(_)) { "panic" } else { "reports-something" }), case, detail: format!("recovery across different external nullifiers must succeed with no output, got {:?}", short(&r)) });
                }
            }
            "x-zero-and-p-minus-1" => {
                // line through (0,3) and (p-1,3): slope 0, secret 3
                if r != Rec::Bytes(codec::fr(&big(3))) {
                    out.push(Discrepancy { key: format!("C03/crafted/{which}/wrong-secret"), case, detail: format!("got {:?}", short(&r)) });
                }
            }
            _ => match &r {
                Rec::Err(_) => {}
                Rec::Bytes(b) if b.is_empty() => {}
                other => out.push(Discrepancy { key: format!("C03/crafted/{which}/{}", if matches!(other, Rec::Panic(_)) { "panic" } else { "reports-a-secret" }), case, detail: format!("degenerate pair returned {:?}", short(other)) }),
            },
        }
        out
    }
    /// real messages: same member, same epoch, two signals
    fn real(&self, r1: &Req, sig2: &[u8], other_ext: Option<&BigUint>, other_id: Option<&BigUint>) -> Vec<Discrepancy> {
        let mut out = vec![];
        let case = json!({"kind":"real","req":r1.to_json(),"signal2_hex":hex(sig2),"other_ext":other_ext.map(sdec),"other_id":other_id.map(sdec)});
        let mut r2 = r1.clone();
        r2.signal = sig2.to_vec();
        if let Some(e) = other_ext {
            r2.ext = e.clone();
        }
        if let Some(i) = other_id {
            r2.id = i.clone();
        }
        let res = with_rln(|rln| -> Result<(Vec<u8>, Vec<u8>, Rec, Vec<(&'static str, VResult)>), String> {
            let s = setup_tree(rln, r1)?;
            let m1 = match prove_via(rln, r1, &s, Entry::Tree, false) { PResult::Ok(m) => m, o => return Err(format!("{:?}", o)) };
            let m2 = match prove_via(rln, &r2, &s, Entry::Tree, false) { PResult::Ok(m) => m, o => return Err(format!("{:?}", o)) };
            let v = verify_all(rln, &m2, &r2.signal, &s.root);
            let mut rec = recover(rln, &m1, &m2);
            // the same pair handed over in the verification encoding (message | signal length | signal): the two inputs
            // then have different lengths; and mixed encodings. All must recover the same thing.
            for (e1, e2) in [(with_signal(&m1, &r1.signal), with_signal(&m2, &r2.signal)), (m1.clone(), with_signal(&m2, &r2.signal)), (with_signal(&m1, &r1.signal), m2.clone())] {
                let alt = recover(rln, &e1, &e2);
                if alt != rec {
                    rec = Rec::Err(format!("recovery depends on the encoding of the inputs: bare messages give {:?}, inputs of {} and {} bytes give {:?}", short(&rec), e1.len(), e2.len(), short(&alt)));
                    break;
                }
            }
            Ok((m1, m2, rec, v))
        });
        let (m1, m2, rec, v) = match res {
            Ok(x) => x,
            Err(e) => {
                discard_rln();
                out.push(Discrepancy { key: "C03/real/prove/error".into(), case, detail: e });
                return out;
            }
        };
        for (n, r) in v {
            if !r.accepted() {
                out.push(Discrepancy { key: "C03/real/second-message/not-accepted".into(), case: case.clone(), detail: format!("{n}: {}", r.short()) });
            }
        }
        let same_null = nullifier_of(&m1) == nullifier_of(&m2);
        if other_ext.is_none() && other_id.is_none() {
            if !same_null {
                out.push(Discrepancy { key: "C03/real/nullifier/differs".into(), case: case.clone(), detail: "same member, epoch and message id: nullifiers differ".into() });
            }
            if r1.signal != sig2 {
                if rec != Rec::Bytes(codec::fr(&r1.secret)) {
                    out.push(Discrepancy { key: "C03/real/recover/wrong".into(), case, detail: format!("expected the secret, got {:?}", short(&rec)) });
                }
            } else if !matches!(&rec, Rec::Err(_)) && rec != Rec::Bytes(vec![]) {
                out.push(Discrepancy { key: "C03/real/degenerate".into(), case, detail: format!("identical messages: {:?}", short(&rec)) });
            }
        } else {
            if same_null {
                out.push(Discrepancy { key: "C03/real/nullifier/equal-across-epochs-or-ids".into(), case: case.clone(), detail: "messages differing in external nullifier or message id carry the same nullifier".into() });
            }
            if other_ext.is_some() && rec != Rec::Bytes(vec![]) {
                out.push(Discrepancy { key: "C03/real/cross-epoch/reports-something".into(), case, detail: format!("{:?}", short(&rec)) });
            }
        }
        out
    }
}

fn short(r: &Rec) -> String {
    match r {
        Rec::Bytes(b) => format!("Ok({} bytes: {})", b.len(), hex(&b[..b.len().min(32)])),
        Rec::Err(e) => format!("Err({})", e.chars().take(60).collect::<String>()),
        Rec::Panic(p) => format!("panic({})", p.chars().take(100).collect::<String>()),
    }
}

impl Prop for C03 {
    fn id(&self) -> &'static str { "C03" }
    fn level(&self) -> &'static str { "exploration" }
    fn run_case(&self, case: &Value) -> Vec<Discrepancy> {
        match case["kind"].as_str().unwrap_or("") {
            "pair" => with_rln(|rln| self.pair(rln, &bdec(&case["secret"]), &bdec(&case["ext"]), &bdec(&case["id"]), &bdec(&case["x1"]), &bdec(&case["x2"]), case["how"].as_str().unwrap_or("replay"))),
            "crafted" => with_rln(|rln| self.crafted(rln, case["which"].as_str().unwrap_or(""))),
            "seq" => self.seq(&case["calls"].as_array().cloned().unwrap_or_default().iter().map(|x| x.as_u64().unwrap_or(0) as u8).collect::<Vec<u8>>()),
            "real" => match Req::from_json(&case["req"]) {
                Some(r) => {
                    let oe = case["other_ext"].as_str().map(|_| bdec(&case["other_ext"]));
                    let oi = case["other_id"].as_str().map(|_| bdec(&case["other_id"]));
                    self.real(&r, &unhex(case["signal2_hex"].as_str().unwrap_or("")), oe.as_ref(), oi.as_ref())
                }
                None => vec![],
            },
            _ => vec![],
        }
    }
    fn explore(&self, ctx: &Ctx, findings: &Findings, ev: &mut Evidence) -> Result<(), String> {
        let q = ctx.tier == Tier::Quick;
        let mut rng = SplitMix(ctx.seed ^ 0xC03);
        let mut secrets = fstar();
        secrets.push(rng.field());
        secrets.extend(limb_patterns(ctx.seed));
        let exts = vec![big(0), big(1), p() - big(1), rng.field()];
        let ids = vec![big(0), big(1), big(99), big(255), big(256), big(65535)];
        // related shares: x2 = -x1, x2 = 2*x1, x2 = x1 + 1, for every x of the boundary alphabet
        let signals: Vec<Vec<u8>> = vec![vec![], b"a".to_vec(), b"b".to_vec(), vec![b'a'; 136], vec![b'a'; 137]];
        let xs_sig: Vec<BigUint> = signals.iter().map(|s| keccak::hash_to_field(s)).collect();
        let xs_f = fstar();
        // (secret, ext, id) x ordered pairs of x: from signals (5x5) for every secret, from F* (11x11) for 4 secrets
        let mut tuples: Vec<(BigUint, BigUint, BigUint, BigUint, BigUint, &'static str)> = vec![];
        for s in &secrets {
            for e in &exts {
                for i in &ids {
                    for a in &xs_sig {
                        for b in &xs_sig {
                            tuples.push((s.clone(), e.clone(), i.clone(), a.clone(), b.clone(), "signal-pair"));
                        }
                    }
                }
            }
        }
        let few: Vec<BigUint> = if q { vec![big(0), p() - big(1)] } else { secrets.clone() };
        for s in &few {
            for e in exts.iter().take(if q { 2 } else { 4 }) {
                for a in &xs_f {
                    for b in &xs_f {
                        tuples.push((s.clone(), e.clone(), big(1), a.clone(), b.clone(), "boundary-x-pair"));
                    }
                }
            }
        }
        for s in secrets.iter().take(if q { 4 } else { secrets.len() }) {
            for a in xs_f.iter().chain(limb_patterns(ctx.seed).iter()) {
                for b in [fneg(a), fmul(a, &big(2)), fadd(a, &big(1)), fmul(a, &((p() + big(1)) / big(2)))] {
                    tuples.push((s.clone(), exts[3].clone(), big(1), a.clone(), b.clone(), "related-x-pair"));
                    tuples.push((s.clone(), exts[3].clone(), big(1), b, a.clone(), "related-x-pair"));
                }
            }
        }
        let res = par_map(&tuples, ncpu(), |_, t| with_rln(|rln| self.pair(rln, &t.0, &t.1, &t.2, &t.3, &t.4, t.5)));
        let mut evals = tuples.len();
        for r in res {
            findings.report_all(r);
        }
        // nullifiers across different (ext, id) for one secret are pairwise distinct
        {
            let s = &secrets[3];
            let mut seen = std::collections::BTreeMap::new();
            for e in &exts {
                for i in &ids {
                    if let Ok(m) = cheap_message(&inputs(s, e, i, &big(9))) {
                        if let Some(prev) = seen.insert(nullifier_of(&m), (e.clone(), i.clone())) {
                            findings.report(Discrepancy { key: "C03/nullifier/collision-across-ext-or-id".into(), case: json!({"kind":"pair","secret":sdec(s),"ext":sdec(e),"id":sdec(i),"x1":"9","x2":"9","how":"collision"}), detail: format!("(ext {}, id {}) and (ext {}, id {}) give the same nullifier", e, i, prev.0, prev.1) });
                        }
                    }
                    evals += 1;
                }
            }
        }
        for w in ["same-x-different-y", "same-x-same-y", "all-zero", "x-zero-and-p-minus-1", "different-external-nullifier", "external-nullifiers-differ-in-high-bytes-only", "external-nullifiers-differ-in-low-byte-only"] {
            findings.report_all(with_rln(|rln| self.crafted(rln, w)));
            evals += 1;
        }
        // real messages
        let d = Req::default_req();
        let mut reals: Vec<(Req, Vec<u8>, Option<BigUint>, Option<BigUint>)> = vec![
            (d.clone(), b"second".to_vec(), None, None),
            (d.clone(), d.signal.clone(), None, None),
            (d.clone(), b"second".to_vec(), Some(big(77)), None),
            (d.clone(), b"second".to_vec(), None, Some(big(2))),
            (Req { secret: p() - big(1), index: (1 << 20) - 1, id: big(0), ..d.clone() }, vec![], None, None),
            (Req { secret: big(0), index: 1 << 19, ext: big(0), ..d.clone() }, vec![b'a'; 137], None, None),
        ];
        // long signals that differ in one byte only: at lengths around and at multiples of the 136-byte hash block, the
        // differing byte in the first, an inner and the last block
        for (n, at) in [(272usize, 271usize), (272, 200), (272, 0), (408, 407), (136, 135), (273, 272)] {
            let s1 = vec![b'a'; n];
            let mut s2 = s1.clone();
            s2[at] = b'b';
            reals.push((Req { signal: s1, ..d.clone() }, s2, None, None));
        }
        if !q {
            for (k, s) in fstar().into_iter().enumerate() {
                reals.push((Req { secret: s, index: POS_ALPHABET[k % POS_ALPHABET.len()], ext: exts[k % 4].clone(), id: ids[k % 3].clone(), ..d.clone() }, signals[(k + 1) % 5].clone(), None, None));
            }
        }
        let rres = par_map(&reals, ncpu(), |_, (r, s2, oe, oi)| self.real(r, s2, oe.as_ref(), oi.as_ref()));
        for r in rres {
            findings.report_all(r);
        }
        evals += reals.len();
        // recovery sequences on a fresh thread
        let mut seqs: Vec<Vec<u8>> = vec![];
        {
            let mut cur: Vec<Vec<u8>> = vec![vec![]];
            for _ in 0..(if q { 3 } else { 4 }) {
                let mut next = vec![];
                for h in &cur {
                    for c in 0u8..6 {
                        let mut n = h.clone();
                        n.push(c);
                        next.push(n);
                    }
                }
                seqs.extend(next.iter().cloned());
                cur = next;
            }
        }
        let sres = par_map(&seqs, ncpu(), |_, sq| self.seq(sq));
        for r in sres {
            findings.report_all(r);
        }
        evals += seqs.len();
        ev.set("call_sequences_on_one_thread", json!(seqs.len()));
        ev.set("evaluations", json!(evals));
        ev.set("distinct_nontrivial", json!(evals - 1));
        ev.set("real_message_pairs", json!(reals.len()));
        ev.set("exhaustive", json!(true));
        ev.set("rule", json!("full product {secret: F* + random} x {ext: 0,1,p-1,random} x {id: 0,1,limit-1} x ordered pairs of x over the hashes of 5 signals (incl. equal), and ordered pairs of x over F* (incl. 0, p-1, equal) for a subset of secrets: public values by proof_values_from_witness, nullifier equality, RLN::recover_id_secret on the two 288-byte encodings must return exactly the secret (x1 != x2) or an error/empty output (x1 == x2); crafted degenerate share pairs; pairwise-distinct nullifiers across (ext, id); real generate_rln_proof message pairs incl. cross-epoch and cross-id, and pairs of 136..408-byte signals differing in one byte of the first / an inner / the last hash block; every sequence of up to 3 (thorough 4) recoveries over {shares of A, shares of B, one share twice, different epochs, truncated message, A in another epoch} on a fresh thread and instance, each judged as when made alone; every tuple is distinct"));
        ev.sample(json!({"secret": "p-1", "ext": "0", "id": "99", "x1": "H('')", "x2": "H('a'*137)"}));
        ev.sample(json!({"crafted": "same-x-different-y"}));
        ev.sample(json!({"real": reals[4].0.to_json()}));
        ev.assume("reference Poseidon / Keccak define the expected shares and nullifiers");
        Ok(())
    }
}
