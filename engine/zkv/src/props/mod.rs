//! One module per property: alphabet, driver, oracle.
use crate::explore::*;
use serde_json::Value;

pub trait Prop: Sync {
    fn id(&self) -> &'static str;
    /// Execute exactly one case on the real code; return the discrepancies it exhibits.
    fn run_case(&self, case: &Value) -> Vec<Discrepancy>;
    /// Enumerate the bounded space; report every discrepancy; fill the evidence.
    /// Err = machinery failure (never a verdict).
    fn explore(&self, ctx: &Ctx, findings: &Findings, ev: &mut Evidence) -> Result<(), String>;
    fn level(&self) -> &'static str;
}

pub mod c09;
pub mod c01;
pub mod c02;
pub mod c03;
pub mod c10;
pub mod c11;
pub mod c12;
pub mod c13;
pub mod c14;
pub mod c16;
pub mod c17;
pub mod c18;
pub mod c0405;
pub mod msg;
pub mod c19;
pub mod rlnsub;
pub mod c20;
pub mod tree;

pub fn lookup(id: &str) -> Option<Box<dyn Prop>> {
    match id {
        "C09" => Some(Box::new(c09::C09)),
        "C10" => Some(Box::new(c10::C10)),
        "C11" => Some(Box::new(c11::C11)),
        "C12" => Some(Box::new(c12::C12)),
        "C13" => Some(Box::new(c13::C13)),
        "C14" => Some(Box::new(c14::C14)),
        "C16" => Some(Box::new(c16::C16)),
        "C17" => Some(Box::new(c17::C17)),
        "C18" => Some(Box::new(c18::C18)),
        "C19" => Some(Box::new(c19::C19)),
        "C01" => Some(Box::new(c01::C01)),
        "C02" => Some(Box::new(c02::C02)),
        "C03" => Some(Box::new(c03::C03)),
        "C04" => Some(Box::new(c0405::C04)),
        "C05" => Some(Box::new(c0405::C05)),
        "C20" => Some(Box::new(c20::C20)),
        "C06" => Some(Box::new(tree::TreeProp(tree::Focus::C06))),
        "C07" => Some(Box::new(tree::TreeProp(tree::Focus::C07))),
        "C08" => Some(Box::new(tree::TreeProp(tree::Focus::C08))),
        "C15" => Some(Box::new(tree::TreeProp(tree::Focus::C15))),
        _ => None,
    }
}

/// subprocess worker entry (none yet)
pub fn worker(args: &[String]) -> i32 {
    match args.first().map(|s| s.as_str()) {
        Some("crash") => c16::worker_crash(args.get(1).map(|s| s.as_str()).unwrap_or("")),
        Some("pool") => c18::worker_pool(args.get(1).map(|s| s.as_str()).unwrap_or("quick"), args.get(2).map(|s| s.as_str()).unwrap_or("/dev/null")),
        Some("poolverify") => c18::worker_poolverify(&args[1..]),
        Some("firsttouch") => c18::worker_firsttouch(args.get(1).map(|s| s.as_str()).unwrap_or("hash"), args.get(2).map(|s| s.as_str()).unwrap_or("hash")),
        Some("tree") => tree::worker_tree(),
        Some("seeded") => c14::worker_seeded(args.get(1).map(|s| s.as_str()).unwrap_or("")),
        _ => 2,
    }
}

// ---- shared conversions between reference integers and the subject's field type ----
use ark_bn254::Fr;
use num_bigint::BigUint;
pub fn to_fr(b: &BigUint) -> Fr {
    Fr::from(b.clone())
}
pub fn from_fr(f: &Fr) -> BigUint {
    (*f).into()
}
pub fn bdec(v: &Value) -> BigUint {
    BigUint::parse_bytes(v.as_str().expect("decimal string").as_bytes(), 10).expect("decimal")
}
pub fn sdec(b: &BigUint) -> Value {
    Value::String(b.to_str_radix(10))
}
