//! C04 — published proof values equal the RLN formulas and the circuit's outputs.
//! C05 — the witness-graph evaluator computes the circuit's witness for every input.
//! Both enumerate the deviation-bounded grid over the 46 circuit inputs and use the reference
//! witness generator (rln.wasm under node) as the oracle for the circuit.
use super::rlnsub::*;
use super::*;
use crate::explore::noderef::CircuitInputs;
use crate::refmodel::codec;
use crate::refmodel::field::*;
use rln::circuit::{calculate_rln_witness, graph_from_folder};
use rln::protocol::{deserialize_witness, proof_values_from_witness};
use serde_json::json;
use std::io::Cursor;

pub struct C04;
pub struct C05;

fn verif_dir() -> std::path::PathBuf {
    std::path::PathBuf::from(std::env::var("ZKV_VERIF").unwrap_or_else(|_| "/verif".into()))
}

fn subject_witness(named: Vec<(String, Vec<Fr>)>) -> Result<Vec<BigUint>, String> {
    guard(|| calculate_rln_witness(named, graph_from_folder())).map(|w| w.iter().map(from_fr).collect())
}

/// which coordinate deviates (for finding keys): "default", one name, or "a+b"
fn dev_class(coords: &[Coord], idx: &[usize]) -> String {
    let names: Vec<&str> = coords.iter().zip(idx.iter()).filter(|(_, a)| **a != 0).map(|(c, _)| c.name.as_str()).collect();
    if names.is_empty() { "default".into() } else { names.join("+") }
}

// ------------------------------------------------------------------------------------------
// C05
// ------------------------------------------------------------------------------------------

impl C05 {
    fn one(&self, ci: &CircuitInputs, class: &str, perm: Option<&[usize]>) -> (Vec<Discrepancy>, bool) {
        let mut out = vec![];
        let case = json!({"inputs": ci.to_json(), "class": class, "perm": perm});
        let reference = match node_witness(&verif_dir(), ci) {
            Ok(r) => r,
            Err(e) => {
                out.push(Discrepancy { key: "MACHINERY".into(), case, detail: e });
                return (out, false);
            }
        };
        let want = match reference {
            Ok(w) => w,
            Err(_) => return (out, false), // not accepted by the circuit: C12's subject
        };
        let mut named = named_inputs(ci);
        if let Some(p) = perm {
            named = p.iter().map(|k| named[*k].clone()).collect();
        }
        match subject_witness(named.clone()) {
            Err(pn) => out.push(Discrepancy { key: format!("C05/{class}/panic"), case: case.clone(), detail: format!("graph evaluation panicked on an assignment the reference generator accepts: {pn}") }),
            Ok(got) => {
                if got.len() != want.len() {
                    out.push(Discrepancy { key: format!("C05/{class}/wrong-length"), case: case.clone(), detail: format!("witness has {} elements, the reference {}", got.len(), want.len()) });
                } else if let Some(k) = got.iter().zip(want.iter()).position(|(a, b)| a != b) {
                    out.push(Discrepancy { key: format!("C05/{class}/wrong-signal"), case: case.clone(), detail: format!("signal {k}: expected {} got {} ({} of {} signals differ)", want[k], got[k], got.iter().zip(want.iter()).filter(|(a, b)| a != b).count(), want.len()) });
                }
                // determinism
                if let Ok(again) = subject_witness(named) {
                    if again != got {
                        out.push(Discrepancy { key: format!("C05/{class}/nondeterministic"), case, detail: "two evaluations of the same assignment differ".into() });
                    }
                }
            }
        }
        (out, true)
    }
}

/// the two accepted assignments and the call alphabet of the C05 sequences
fn seq_assignments() -> (CircuitInputs, CircuitInputs) {
    let a = default_inputs();
    let mut b = default_inputs();
    b.secret = p() - big(1);
    b.id = big(99);
    b.bits = (0..20).map(|k| big((k % 2) as u64)).collect();
    b.path = (0..20u64).map(|k| big(77 + k) * pow2(200) + big(3 * k)).collect();
    (a, b)
}

impl C05 {
    /// A sequence of witness computations on ONE fresh thread. codes: 0 assignment A, 1 assignment B (both accepted
    /// by the reference generator), 2 A with 19 path elements, 3 A with an input name the graph does not declare,
    /// 4 B with 21 direction values (2..4 must be refused; what they return is not judged beyond that). Every
    /// accepted call must return the reference witness whatever was computed or refused before it.
    fn seq(&self, codes: &[u8]) -> Vec<Discrepancy> {
        let case = json!({"kind": "seq", "calls": codes});
        let (a, b) = seq_assignments();
        let wa = match node_witness(&verif_dir(), &a) { Ok(Ok(w)) => w, _ => return vec![Discrepancy { key: "MACHINERY".into(), case, detail: "reference witness for assignment A".into() }] };
        let wb = match node_witness(&verif_dir(), &b) { Ok(Ok(w)) => w, _ => return vec![Discrepancy { key: "MACHINERY".into(), case, detail: "reference witness for assignment B".into() }] };
        let codes: Vec<u8> = codes.to_vec();
        let h = std::thread::spawn(move || -> Vec<(usize, &'static str, String)> {
            let mut bad = vec![];
            for (k, c) in codes.iter().enumerate() {
                let (named, want): (Vec<(String, Vec<Fr>)>, Option<&Vec<BigUint>>) = match c {
                    0 => (named_inputs(&a), Some(&wa)),
                    1 => (named_inputs(&b), Some(&wb)),
                    2 => { let mut n = named_inputs(&a); n[3].1.truncate(19); (n, None) }
                    3 => { let mut n = named_inputs(&a); n.push(("notAnInput".to_string(), vec![to_fr(&big(1))])); (n, None) }
                    _ => { let mut n = named_inputs(&b); n[4].1.push(to_fr(&big(0))); (n, None) }
                };
                let r = guard(|| rln::circuit::try_calculate_rln_witness(named, graph_from_folder()).map(|w| w.iter().map(from_fr).collect::<Vec<BigUint>>()).map_err(|e| e.to_string()));
                match (r, want) {
                    (Err(pn), _) => bad.push((k, "panic", pn)),
                    (Ok(Ok(_)), None) => bad.push((k, "malformed-accepted", "an assignment with a wrong vector length / unknown name was evaluated".into())),
                    (Ok(Err(_)), None) => {}
                    (Ok(Err(e)), Some(_)) => bad.push((k, "refused", format!("an assignment the reference generator accepts was refused: {e}"))),
                    (Ok(Ok(got)), Some(w)) => {
                        if got.len() != w.len() {
                            bad.push((k, "wrong-length", format!("{} elements, the reference {}", got.len(), w.len())));
                        } else if let Some(i) = got.iter().zip(w.iter()).position(|(x, y)| x != y) {
                            bad.push((k, "wrong-signal", format!("signal {i}: expected {} got {}", w[i], got[i])));
                        }
                    }
                }
            }
            bad
        });
        match h.join().unwrap_or_default().first() {
            Some((k, sym, d)) => vec![Discrepancy { key: format!("C05/after-other-calls/{sym}"), case, detail: format!("call number {k} of the sequence: {d}") }],
            None => vec![],
        }
    }
}

fn permutations(n: usize) -> Vec<Vec<usize>> {
    fn rec(cur: &mut Vec<usize>, used: &mut Vec<bool>, n: usize, out: &mut Vec<Vec<usize>>) {
        if cur.len() == n {
            out.push(cur.clone());
            return;
        }
        for i in 0..n {
            if !used[i] {
                used[i] = true;
                cur.push(i);
                rec(cur, used, n, out);
                cur.pop();
                used[i] = false;
            }
        }
    }
    let mut out = vec![];
    rec(&mut vec![], &mut vec![false; n], n, &mut out);
    out
}

impl Prop for C05 {
    fn id(&self) -> &'static str { "C05" }
    fn level(&self) -> &'static str { "exploration" }
    fn run_case(&self, case: &Value) -> Vec<Discrepancy> {
        if case["kind"] == "seq" {
            return self.seq(&case["calls"].as_array().cloned().unwrap_or_default().iter().map(|x| x.as_u64().unwrap_or(0) as u8).collect::<Vec<u8>>());
        }
        let ci = match CircuitInputs::from_json(&case["inputs"]) { Some(c) => c, None => return vec![] };
        let perm: Option<Vec<usize>> = case["perm"].as_array().map(|a| a.iter().filter_map(|x| x.as_u64().map(|y| y as usize)).collect());
        self.one(&ci, case["class"].as_str().unwrap_or("replay"), perm.as_deref()).0
    }
    fn explore(&self, ctx: &Ctx, findings: &Findings, ev: &mut Evidence) -> Result<(), String> {
        let q = ctx.tier == Tier::Quick;
        let positions: Vec<usize> = (0..20).collect();
        let coords = witness_coords(ctx.seed, if q { 2 } else { 4 }, true, &positions);
        let cases = grid(&coords, if q { 1 } else { 2 });
        // thorough: pairs are restricted to those that involve at most one of the two big coordinates
        let cases: Vec<_> = if q { cases } else {
            cases.into_iter().filter(|(idx, _)| !(idx[4] != 0 && idx[5] != 0) || idx.iter().filter(|a| **a != 0).count() < 2 || (idx[4] % 7 == 1 && idx[5] % 5 == 1)).collect()
        };
        let res = par_map(&cases, ncpu(), |_, (idx, ci)| self.one(ci, &dev_class(&coords, idx), None));
        let mut accepted = 0u64;
        for (k, (out, acc)) in res.into_iter().enumerate() {
            if let Some(d) = out.iter().find(|d| d.key == "MACHINERY") {
                return Err(d.detail.clone());
            }
            if acc {
                accepted += 1;
                ev.nontrivial(format!("{:?}", cases[k].0));
            }
            findings.report_all(out);
        }
        // input order: every permutation of the seven named inputs for the default assignment
        let perms = permutations(7);
        let perms: Vec<Vec<usize>> = if q { perms.into_iter().step_by(7).collect() } else { perms };
        let d = default_inputs();
        let base = subject_witness(named_inputs(&d)).map_err(|e| format!("default assignment panics: {e}"))?;
        let pres = par_map(&perms, ncpu(), |_, p| {
            let named = named_inputs(&d);
            let named: Vec<_> = p.iter().map(|k| named[*k].clone()).collect();
            match subject_witness(named) {
                Ok(w) if w == base => None,
                Ok(_) => Some(Discrepancy { key: "C05/input-order/differs".into(), case: json!({"inputs": d.to_json(), "class": "input-order", "perm": p}), detail: format!("supplying the named inputs in order {:?} changes the witness", p) }),
                Err(pn) => Some(Discrepancy { key: "C05/input-order/panic".into(), case: json!({"inputs": d.to_json(), "class": "input-order", "perm": p}), detail: pn }),
            }
        });
        for r in pres.into_iter().flatten() {
            findings.report(r);
        }
        // rotations of the input order for a spread of other assignments
        let spread: Vec<&(Vec<usize>, CircuitInputs)> = cases.iter().step_by((cases.len() / 24).max(1)).collect();
        let rres = par_map(&spread, ncpu(), |_, (idx, ci)| {
            let mut out = vec![];
            for r in 1..7usize {
                let p: Vec<usize> = (0..7).map(|k| (k + r) % 7).collect();
                out.extend(self.one(ci, &format!("rotated.{}", dev_class(&coords, idx)), Some(&p)).0);
            }
            out
        });
        for r in rres {
            findings.report_all(r);
        }
        // sequences of accepted and refused computations on one fresh thread
        let mut seqs: Vec<Vec<u8>> = vec![];
        {
            let mut cur: Vec<Vec<u8>> = vec![vec![]];
            for _ in 0..(if q { 3 } else { 4 }) {
                let mut next = vec![];
                for h in &cur {
                    for c in 0u8..5 {
                        let mut n = h.clone();
                        n.push(c);
                        next.push(n);
                    }
                }
                seqs.extend(next.iter().cloned());
                cur = next;
            }
        }
        let sres = par_map(&seqs, ncpu(), |_, sq| self.seq(sq));
        for r in sres {
            if let Some(d) = r.iter().find(|d| d.key == "MACHINERY") {
                return Err(d.detail.clone());
            }
            findings.report_all(r);
        }
        ev.set("call_sequences_on_one_thread", json!(seqs.len()));
        ev.set("evaluations", json!(cases.len() + perms.len() + spread.len() * 6 + seqs.len()));
        ev.set("accepted_by_reference", json!(accepted));
        ev.set("rejected_by_reference", json!(cases.len() as u64 - accepted));
        ev.set("input_order_permutations", json!(perms.len()));
        ev.set("deviation_bound", json!(if q { 1 } else { 2 }));
        ev.set("exhaustive", json!(true));
        ev.set("rule", json!("every assignment of the 46 circuit inputs within k deviations of the default over the coordinates {secret, x, external nullifier: F* + 64-bit limb boundaries + seeded randoms; (limit,id) pairs; one path element (position x value); direction-bit pattern}; each is evaluated by the reference generator (rln.wasm under node) and, when accepted, by calculate_rln_witness twice; all 5844 signals are compared; input-order permutations of the seven named inputs; every sequence of up to 3 (thorough 4) computations over {assignment A, assignment B, three refused assignments} on one fresh thread, every accepted one compared with the reference witness; distinct_nontrivial = distinct grid vectors accepted by the reference"));
        ev.set("alphabets", json!(coords.iter().map(|c| json!({"coordinate": c.name, "size": c.alts.len()})).collect::<Vec<_>>()));
        for (idx, ci) in cases.iter().step_by((cases.len() / 4).max(1)).take(4) {
            ev.sample(json!({"deviation": dev_class(&coords, idx), "inputs": ci.to_json()}));
        }
        ev.assume("rln.wasm driven by the repository's witness_calculator.js under node is the reference circom witness generator");
        ev.assume("assignments outside the grid are not covered; the bundled graph only contains Input, constant, Mul, Add, Sub, Shr and Band nodes (other operators are C19/C20)");
        Ok(())
    }
}

// ------------------------------------------------------------------------------------------
// C04
// ------------------------------------------------------------------------------------------

impl C04 {
    fn one(&self, ci: &CircuitInputs, class: &str, with_message: bool) -> (Vec<Discrepancy>, bool) {
        let mut out = vec![];
        let case = json!({"inputs": ci.to_json(), "class": class, "message": with_message});
        let reference = match node_witness(&verif_dir(), ci) {
            Ok(r) => r,
            Err(e) => {
                out.push(Discrepancy { key: "MACHINERY".into(), case, detail: e });
                return (out, false);
            }
        };
        let refw = match reference {
            Ok(w) => w,
            Err(_) => return (out, false),
        };
        let want = ref_values(ci);
        let as_vec = |v: &codec::ProofValues| vec![v.y.clone(), v.root.clone(), v.nullifier.clone(), v.x.clone(), v.ext.clone()];
        let names = ["y", "root", "nullifier", "x", "external nullifier"];
        // the circuit's own public outputs (positions 1..6 of the reference witness) must equal the formulas:
        // this validates the reference formulas against the circuit on every case
        if refw.len() < 6 || refw[1..6] != as_vec(&want)[..] {
            out.push(Discrepancy { key: "MACHINERY".into(), case, detail: "the reference formulas disagree with the circuit outputs computed by rln.wasm".into() });
            return (out, true);
        }
        // (1) native recomputation
        let wb = witness_bytes(ci);
        match guard(|| deserialize_witness(&wb).map_err(|e| e.to_string()).and_then(|(w, _)| proof_values_from_witness(&w).map_err(|e| e.to_string()))) {
            Err(pn) => out.push(Discrepancy { key: format!("C04/native/{class}/panic"), case: case.clone(), detail: pn }),
            Ok(Err(e)) => out.push(Discrepancy { key: format!("C04/native/{class}/error"), case: case.clone(), detail: format!("a witness the circuit accepts is refused: {e}") }),
            Ok(Ok(v)) => {
                let got = vec![from_fr(&v.y), from_fr(&v.root), from_fr(&v.nullifier), from_fr(&v.x), from_fr(&v.external_nullifier)];
                if let Some(k) = got.iter().zip(as_vec(&want).iter()).position(|(a, b)| a != b) {
                    out.push(Discrepancy { key: format!("C04/native/{class}/wrong-{}", names[k].replace(' ', "-")), case: case.clone(), detail: format!("{}: expected {} got {}", names[k], as_vec(&want)[k], got[k]) });
                }
            }
        }
        // (2) zerokit's witness, positions 1..6
        match subject_witness(named_inputs(ci)) {
            Err(pn) => out.push(Discrepancy { key: format!("C04/witness-outputs/{class}/panic"), case: case.clone(), detail: pn }),
            Ok(w) => {
                if w.len() < 6 {
                    out.push(Discrepancy { key: format!("C04/witness-outputs/{class}/short"), case: case.clone(), detail: format!("witness has {} elements", w.len()) });
                } else if let Some(k) = w[1..6].iter().zip(as_vec(&want).iter()).position(|(a, b)| a != b) {
                    out.push(Discrepancy { key: format!("C04/witness-outputs/{class}/wrong-{}", names[k].replace(' ', "-")), case: case.clone(), detail: format!("witness[{}] ({}): expected {} got {}", k + 1, names[k], as_vec(&want)[k], w[k + 1]) });
                }
            }
        }
        // (3) bytes 128..288 of a real message
        if with_message {
            let r = guard(|| {
                with_rln(|rln| {
                    let mut o = Cursor::new(Vec::<u8>::new());
                    rln.generate_rln_proof_with_witness(Cursor::new(wb.clone()), &mut o).map(|_| o.into_inner()).map_err(|e| e.to_string())
                })
            });
            match r {
                Err(pn) => { discard_rln(); out.push(Discrepancy { key: format!("C04/message/{class}/panic"), case: case.clone(), detail: pn }) }
                Ok(Err(e)) => out.push(Discrepancy { key: format!("C04/message/{class}/error"), case: case.clone(), detail: e }),
                Ok(Ok(bytes)) => {
                    if bytes.len() != 288 || bytes[128..] != codec::proof_values(&want)[..] {
                        out.push(Discrepancy { key: format!("C04/message/{class}/wrong-bytes"), case, detail: format!("bytes 128..288 of the message differ from root|ext|x|y|nullifier of the formulas (message length {})", bytes.len()) });
                    }
                }
            }
        }
        (out, true)
    }
}

impl C04 {
    /// A sequence of generate_rln_proof requests on ONE thread against one tree holding two members. codes: 0 a valid
    /// request of member 1, 1 a valid request of member 2, 2 member 2 with message id = limit (must be refused),
    /// 3 member 1 with message id above the limit (must be refused), 4 member 2, valid, another signal and epoch,
    /// 5 not a request: a third leaf is written (first time) or removed again (next time), so the root changes.
    /// Bytes 128..288 of every message returned must be root|ext|x|y|nullifier of the formulas for that request.
    /// The sequence runs on a thread of its own (and an instance of its own), so nothing computed for another
    /// sequence is around.
    fn seq(&self, codes: &[u8]) -> Vec<Discrepancy> {
        let codes: Vec<u8> = codes.to_vec();
        std::thread::spawn(move || C04.seq_here(&codes)).join().unwrap_or_default()
    }
    fn seq_here(&self, codes: &[u8]) -> Vec<Discrepancy> {
        use super::msg::Req;
        use crate::refmodel::tree::IdealTree;
        let case = json!({"kind": "seq", "calls": codes});
        let d = Req::default_req();
        let m1 = d.clone();
        let m2 = Req { secret: p() - big(1), index: 1 << 19, limit: big(7), id: big(6), ..d.clone() };
        let reqs: Vec<(Req, bool)> = vec![
            (m1.clone(), true),
            (m2.clone(), true),
            (Req { id: big(7), ..m2.clone() }, false),
            (Req { id: big(1000), ..m1.clone() }, false),
            (Req { signal: b"another signal".to_vec(), ext: big(77), id: big(0), ..m2.clone() }, true),
            // code 5 is the tree change; code 6: member 1's position asked for with a limit that is not the registered one
            // (well-formed; the values published are the formulas for THAT witness: the root folds from its own leaf)
            (m1.clone(), true),
            (Req { limit: big(50), id: big(3), ..m1.clone() }, true),
        ];
        let codes: Vec<u8> = codes.to_vec();
        let r = with_rln(|rln| -> Result<Vec<(usize, &'static str, String)>, String> {
            rln.set_tree(DEPTH).map_err(|e| e.to_string())?;
            let mut model = IdealTree::new(DEPTH);
            for m in [&m1, &m2] {
                let rate = rate_commitment(&m.secret, &m.limit);
                rln.set_leaf(m.index as usize, Cursor::new(codec::fr(&rate))).map_err(|e| e.to_string())?;
                model.set(m.index, &rate);
            }
            let mut bad = vec![];
            let mut third = false;
            for (k, c) in codes.iter().enumerate() {
                if *c == 5 {
                    third = !third;
                    let v = if third { big(4242) } else { big(0) };
                    if third {
                        rln.set_leaf(77, Cursor::new(codec::fr(&v))).map_err(|e| e.to_string())?;
                        model.set(77, &v);
                    } else {
                        rln.delete_leaf(77).map_err(|e| e.to_string())?;
                        model.remove(77);
                    }
                    continue;
                }
                let (rq, valid) = &reqs[*c as usize % reqs.len()];
                let foreign = *c == 6;
                let got = guard(|| {
                    let mut o = Cursor::new(Vec::<u8>::new());
                    rln.generate_rln_proof(Cursor::new(rq.prove_input()), &mut o).map(|_| o.into_inner()).map_err(|e| e.to_string())
                });
                match (got, valid) {
                    (Err(pn), _) => bad.push((k, "panic", pn)),
                    (Ok(Ok(_)), false) => bad.push((k, "invalid-request-proved", "a request with message id >= limit produced a message".into())),
                    (Ok(Err(_)), false) => {}
                    (Ok(Err(e)), true) => bad.push((k, "error", format!("a valid request was refused: {e}"))),
                    (Ok(Ok(bytes)), true) => {
                        let _ = foreign;
                        let (path, bits) = model.path(rq.index);
                        let ci = CircuitInputs { secret: rq.secret.clone(), limit: rq.limit.clone(), id: rq.id.clone(), path, bits: bits.iter().map(|b| big(*b as u64)).collect(), x: crate::refmodel::keccak::hash_to_field(&rq.signal), ext: rq.ext.clone() };
                        let want = codec::proof_values(&ref_values(&ci));
                        if bytes.len() != 288 || bytes[128..] != want[..] {
                            let names = ["root", "external nullifier", "x", "y", "nullifier"];
                            let which = (0..5).find(|f| bytes.len() == 288 && bytes[128 + 32 * f..160 + 32 * f] != want[32 * f..32 * f + 32]).map(|f| names[f]).unwrap_or("length");
                            bad.push((k, "wrong-bytes", format!("bytes 128..288 of the message differ from the formulas ({which})")));
                        }
                    }
                }
            }
            Ok(bad)
        });
        match r {
            Err(e) => { discard_rln(); vec![Discrepancy { key: "C04/message/sequence/setup-error".into(), case, detail: e }] }
            Ok(bad) => match bad.first() {
                Some((k, sym, dd)) => { if *sym == "panic" { discard_rln(); } vec![Discrepancy { key: format!("C04/message/sequence/{sym}"), case, detail: format!("request number {k} of the sequence: {dd}") }] }
                None => vec![],
            },
        }
    }
}

impl Prop for C04 {
    fn id(&self) -> &'static str { "C04" }
    fn level(&self) -> &'static str { "exploration" }
    fn run_case(&self, case: &Value) -> Vec<Discrepancy> {
        if case["kind"] == "seq" {
            return self.seq(&case["calls"].as_array().cloned().unwrap_or_default().iter().map(|x| x.as_u64().unwrap_or(0) as u8).collect::<Vec<u8>>());
        }
        if let (Some(a), Some(b)) = (CircuitInputs::from_json(&case["first"]), CircuitInputs::from_json(&case["inputs"])) {
            // a sequence of two computations on this thread, the second one judged
            let (wa, wb) = (witness_bytes(&a), witness_bytes(&b));
            let r = guard(|| {
                let _ = deserialize_witness(&wa).ok().and_then(|(w, _)| proof_values_from_witness(&w).ok());
                deserialize_witness(&wb).ok().and_then(|(w, _)| proof_values_from_witness(&w).ok()).map(|v| vec![from_fr(&v.y), from_fr(&v.root), from_fr(&v.nullifier), from_fr(&v.x), from_fr(&v.external_nullifier)])
            });
            let want = ref_values(&b);
            if r != Ok(Some(vec![want.y, want.root, want.nullifier, want.x, want.ext])) {
                return vec![Discrepancy { key: "C04/native/sequence-of-two/wrong-values".into(), case: case.clone(), detail: "values computed right after another computation differ from the formulas".into() }];
            }
            return vec![];
        }
        match CircuitInputs::from_json(&case["inputs"]) {
            Some(ci) => self.one(&ci, case["class"].as_str().unwrap_or("replay"), case["message"].as_bool().unwrap_or(false)).0,
            None => vec![],
        }
    }
    fn explore(&self, ctx: &Ctx, findings: &Findings, ev: &mut Evidence) -> Result<(), String> {
        let q = ctx.tier == Tier::Quick;
        let positions: Vec<usize> = (0..20).collect();
        let coords = witness_coords(ctx.seed.wrapping_add(4), if q { 2 } else { 4 }, true, &positions);
        let cases = grid(&coords, if q { 1 } else { 2 });
        let cases: Vec<_> = if q { cases } else {
            cases.into_iter().filter(|(idx, _)| !(idx[4] != 0 && idx[5] != 0) || (idx[4] % 7 == 1 && idx[5] % 5 == 1)).collect()
        };
        let nmsg = if q { 8 } else { 40 };
        let step = (cases.len() / nmsg).max(1);
        let res = par_map(&cases, ncpu(), |k, (idx, ci)| self.one(ci, &dev_class(&coords, idx), k % step == 0));
        let mut accepted = 0u64;
        let mut messages = 0u64;
        for (k, (out, acc)) in res.into_iter().enumerate() {
            if let Some(d) = out.iter().find(|d| d.key == "MACHINERY") {
                return Err(d.detail.clone());
            }
            if acc {
                accepted += 1;
                ev.nontrivial(format!("{:?}", cases[k].0));
                if k % step == 0 {
                    messages += 1;
                }
            }
            findings.report_all(out);
        }
        // histories of two computations on one thread: every ordered pair of (limit, id) alternatives with the same
        // secret (and of secrets with the same limit), the second one judged (a value kept from the first must not leak)
        let seq_alts: Vec<CircuitInputs> = {
            let mut v = vec![];
            for (l, i) in limit_id_valid() {
                let mut ci = default_inputs();
                ci.limit = big(l);
                ci.id = big(i);
                v.push(ci);
            }
            for s in [big(1), pow2(64), p() - big(1)] {
                let mut ci = default_inputs();
                ci.secret = s;
                v.push(ci);
            }
            v
        };
        let mut seq_pairs = 0u64;
        {
            let accepted_alts: Vec<&CircuitInputs> = seq_alts.iter().filter(|ci| matches!(node_witness(&verif_dir(), ci), Ok(Ok(_)))).collect();
            for a in &accepted_alts {
                for b in &accepted_alts {
                    let wa = witness_bytes(a);
                    let wb = witness_bytes(b);
                    let r = guard(|| {
                        let _ = deserialize_witness(&wa).ok().and_then(|(w, _)| proof_values_from_witness(&w).ok());
                        deserialize_witness(&wb).ok().and_then(|(w, _)| proof_values_from_witness(&w).ok()).map(|v| vec![from_fr(&v.y), from_fr(&v.root), from_fr(&v.nullifier), from_fr(&v.x), from_fr(&v.external_nullifier)])
                    });
                    seq_pairs += 1;
                    let want = ref_values(b);
                    let want = vec![want.y, want.root, want.nullifier, want.x, want.ext];
                    if r != Ok(Some(want)) {
                        findings.report(Discrepancy { key: "C04/native/sequence-of-two/wrong-values".into(), case: json!({"inputs": b.to_json(), "class": "sequence", "message": false, "first": a.to_json()}), detail: format!("values computed right after another computation (limit {} id {} secret {}) differ from the formulas", a.limit, a.id, a.secret) });
                    }
                }
            }
        }
        // request sequences on one thread and one tree with two members, refused requests in between: every sequence
        // of length <= 3 that ends with a valid request (the ones before it are the history)
        let mut seqs: Vec<Vec<u8>> = vec![];
        for a in [0u8, 1, 2, 3, 4, 5, 6] {
            for b in [0u8, 1, 2, 3, 4, 5, 6] {
                for c in if q { vec![1u8, 6] } else { vec![0u8, 1, 4, 6] } {
                    seqs.push(vec![a, b, c]);
                }
            }
        }
        for b in [0u8, 1, 2, 3, 4, 5, 6] {
            for c in [0u8, 1, 4, 6] {
                seqs.push(vec![b, c]);
            }
        }
        seqs.push(vec![6]);
        if !q {
            for a in 0u8..6 { for b in 0u8..6 { for c in 0u8..6 { for e in [0u8, 1, 4] { seqs.push(vec![a, b, c, e]); } } } }
        }
        let sres = par_map(&seqs, ncpu(), |_, sq| self.seq(sq));
        for r in sres {
            findings.report_all(r);
        }
        ev.set("request_sequences_on_one_thread", json!(seqs.len()));
        ev.set("evaluations", json!(cases.len() as u64 + seq_pairs + seqs.len() as u64));
        ev.set("ordered_pairs_of_consecutive_computations", json!(seq_pairs));
        ev.set("accepted_by_reference", json!(accepted));
        ev.set("real_messages_checked", json!(messages));
        ev.set("deviation_bound", json!(if q { 1 } else { 2 }));
        ev.set("exhaustive", json!(true));
        ev.set("rule", json!("every witness within k deviations of the default over {secret, x, external nullifier: F* + randoms; (limit,id) pairs; one path element (position x value); direction-bit pattern incl. all one-hot, alternating and position-alphabet patterns}; for each witness the circuit accepts: proof_values_from_witness, calculate_rln_witness()[1..6] and (subset) bytes 128..288 of a real message are compared with the reference formulas (reference Poseidon), which are themselves compared with the outputs of rln.wasm on every case; every sequence of 3 (thorough 4) generate_rln_proof requests over {valid member 1, valid member 2, member 2 with id = limit, member 1 with id > limit, member 2 other signal, a third leaf written / removed, member 1's position with another limit} ending in a valid one, each sequence on a fresh thread with its own instance and two-member tree, each message's public values compared with the formulas; distinct_nontrivial = distinct accepted grid vectors"));
        ev.set("alphabets", json!(coords.iter().map(|c| json!({"coordinate": c.name, "size": c.alts.len()})).collect::<Vec<_>>()));
        for (idx, ci) in cases.iter().step_by((cases.len() / 4).max(1)).take(4) {
            ev.sample(json!({"deviation": dev_class(&coords, idx), "inputs": ci.to_json()}));
        }
        ev.assume("reference Poseidon (checked against circomlib vectors and, on every case, against the circuit outputs computed by rln.wasm)");
        Ok(())
    }
}
