//! C09 — Poseidon and hash-to-field conform to their specifications for all inputs.
use super::*;
use crate::refmodel::field::*;
use crate::refmodel::{keccak, poseidon};
use rln::ffi::Buffer;
use serde_json::json;

pub struct C09;

fn vec_fr_bytes(v: &[BigUint]) -> Vec<u8> {
    let mut b = (v.len() as u64).to_le_bytes().to_vec();
    for x in v {
        b.extend_from_slice(&to_le32(x));
    }
    b
}

fn ffi_out(f: impl FnOnce(*const Buffer, *mut Buffer) -> bool, input: &[u8]) -> Result<Vec<u8>, String> {
    let inb = Buffer { ptr: input.as_ptr(), len: input.len() };
    static STALE: [u8; 5] = *b"STALE";
    let mut outb = Buffer { ptr: STALE.as_ptr(), len: STALE.len() };
    let ok = f(&inb as *const Buffer, &mut outb as *mut Buffer);
    if !ok {
        return Err("ffi returned false".into());
    }
    if outb.ptr.is_null() {
        return Err("ffi returned null buffer".into());
    }
    Ok(unsafe { std::slice::from_raw_parts(outb.ptr, outb.len) }.to_vec())
}

impl C09 {
    fn poseidon_case(&self, inp: &[BigUint], out: &mut Vec<Discrepancy>) {
        let n = inp.len();
        let want = poseidon::hash_uncached(inp);
        let case = json!({"kind": "poseidon", "inputs": inp.iter().map(sdec).collect::<Vec<_>>()});
        let frs: Vec<Fr> = inp.iter().map(to_fr).collect();
        let mut check = |entry: &str, got: Result<BigUint, String>| match got {
            Ok(g) => {
                if g != want {
                    out.push(Discrepancy { key: format!("C09/poseidon/{}/arity-{}/wrong-value", entry, n), case: case.clone(),
                        detail: format!("expected {} got {}", want, g) });
                }
            }
            Err(m) => out.push(Discrepancy { key: format!("C09/poseidon/{}/arity-{}/error-or-panic", entry, n), case: case.clone(), detail: m }),
        };
        for _rep in 0..2 {
            check("typed", guard(|| rln::hashers::poseidon_hash(&frs)).map(|v| from_fr(&v)));
        }
        let enc = vec_fr_bytes(inp);
        check("bytes", guard(|| {
            let mut o = Vec::new();
            rln::public::poseidon_hash(&enc[..], &mut o).map(|_| o).map_err(|e| e.to_string())
        }).and_then(|r| r).and_then(|o| if o.len() == 32 { Ok(from_le(&o)) } else { Err(format!("output length {}", o.len())) }));
        check("ffi", guard(|| ffi_out(|i, o| rln::ffi::poseidon_hash(i, o), &enc)).and_then(|r| r)
            .and_then(|o| if o.len() == 32 { Ok(from_le(&o)) } else { Err(format!("output length {}", o.len())) }));
    }

    fn h2f_case(&self, data: &[u8], label: &Value, out: &mut Vec<Discrepancy>) {
        let want = keccak::hash_to_field(data);
        let case = json!({"kind": "hash_to_field", "data": label});
        let cls = match data.len() { 0 => "empty".to_string(), l if l < 136 => "lt-one-block".into(), l if l % 136 == 135 => "block-minus-1".into(), l if l % 136 == 0 => "block-exact".into(), _ => "multi-block".into() };
        let mut check = |entry: &str, got: Result<BigUint, String>| match got {
            Ok(g) => if g != want {
                out.push(Discrepancy { key: format!("C09/hash_to_field/{}/{}/wrong-value", entry, cls), case: case.clone(), detail: format!("len {} expected {} got {}", data.len(), want, g) });
            },
            Err(m) => out.push(Discrepancy { key: format!("C09/hash_to_field/{}/{}/error-or-panic", entry, cls), case: case.clone(), detail: m }),
        };
        for _rep in 0..2 {
            check("typed", guard(|| rln::hashers::hash_to_field(data)).map(|v| from_fr(&v)));
        }
        check("bytes", guard(|| {
            let mut o = Vec::new();
            rln::public::hash(data, &mut o).map(|_| o).map_err(|e| e.to_string())
        }).and_then(|r| r).and_then(|o| if o.len() == 32 { Ok(from_le(&o)) } else { Err(format!("output length {}", o.len())) }));
        check("ffi", guard(|| ffi_out(|i, o| rln::ffi::hash(i, o), data)).and_then(|r| r)
            .and_then(|o| if o.len() == 32 { Ok(from_le(&o)) } else { Err(format!("output length {}", o.len())) }));
    }

    /// A sequence of byte-level calls on ONE fresh thread (entry 0: rln::public, 1: FFI). codes 0..=4 are valid calls
    /// whose result must equal the reference whatever came before: hash(""), hash("abc"), hash(137 x 'a'),
    /// poseidon_hash([1]), poseidon_hash([1,2]); codes 5..=7 are malformed poseidon_hash inputs (declared count 2 with
    /// one and a quarter elements, a 5-byte buffer, declared count 2^61 with no elements) whose own result is not judged.
    fn seq(&self, entry: u8, codes: &[u8]) -> Vec<Discrepancy> {
        let case = json!({"kind": "seq", "entry": entry, "calls": codes});
        let codes: Vec<u8> = codes.to_vec();
        let h = std::thread::spawn(move || -> Vec<(usize, String)> {
            let mut bad = vec![];
            for (k, c) in codes.iter().enumerate() {
                let (is_hash, input, want): (bool, Vec<u8>, Option<BigUint>) = match c {
                    0 => (true, vec![], Some(keccak::hash_to_field(b""))),
                    1 => (true, b"abc".to_vec(), Some(keccak::hash_to_field(b"abc"))),
                    2 => (true, vec![b'a'; 137], Some(keccak::hash_to_field(&vec![b'a'; 137]))),
                    3 => (false, vec_fr_bytes(&[big(1)]), Some(poseidon::hash(&[big(1)]))),
                    4 => (false, vec_fr_bytes(&[big(1), big(2)]), Some(poseidon::hash(&[big(1), big(2)]))),
                    5 => (false, { let mut b = vec_fr_bytes(&[big(1), big(2)]); b.truncate(8 + 40); b }, None),
                    6 => (false, vec![2, 0, 0, 0, 0], None),
                    _ => (false, (1u64 << 61).to_le_bytes().to_vec(), None),
                };
                let got: Result<Result<Vec<u8>, String>, String> = if entry == 0 {
                    guard(|| {
                        let mut o = Vec::new();
                        let r = if is_hash { rln::public::hash(&input[..], &mut o) } else { rln::public::poseidon_hash(&input[..], &mut o) };
                        r.map(|_| o).map_err(|e| e.to_string())
                    })
                } else {
                    guard(|| if is_hash { ffi_out(|i, o| rln::ffi::hash(i, o), &input) } else { ffi_out(|i, o| rln::ffi::poseidon_hash(i, o), &input) })
                };
                if let Some(w) = want {
                    match got {
                        Ok(Ok(o)) if o.len() == 32 && from_le(&o) == w => {}
                        Ok(Ok(o)) => bad.push((k, format!("expected {} got {} ({} bytes)", w, from_le(&o), o.len()))),
                        Ok(Err(e)) => bad.push((k, format!("a valid input was rejected: {e}"))),
                        Err(p) => bad.push((k, format!("panic: {p}"))),
                    }
                }
            }
            bad
        });
        match h.join().unwrap_or_default().first() {
            Some((k, d)) => vec![Discrepancy { key: format!("C09/{}/{}/after-other-calls/wrong-value", if codes_is_hash(&case, *k) { "hash_to_field" } else { "poseidon" }, if entry == 0 { "bytes" } else { "ffi" }), case: case.clone(), detail: format!("call number {k} of the sequence: {d}") }],
            None => vec![],
        }
    }

    fn constants_case(&self, t: usize, out: &mut Vec<Discrepancy>) -> u64 {
        let case = json!({"kind": "constants", "t": t});
        let r = guard(|| {
            let pz = zerokit_utils::poseidon::Poseidon::<Fr>::from(&rln::hashers::ROUND_PARAMS);
            pz.get_parameters().iter().find(|rp| rp.t == t).map(|rp| (rp.n_rounds_f, rp.n_rounds_p, rp.c.iter().map(from_fr).collect::<Vec<_>>(), rp.m.iter().map(|r| r.iter().map(from_fr).collect::<Vec<_>>()).collect::<Vec<_>>()))
        });
        let rf = poseidon::params(t);
        match r {
            Ok(Some((nf, np, c, m))) => {
                if nf != rf.rf || np != rf.rp {
                    out.push(Discrepancy { key: format!("C09/constants/t-{}/round-numbers", t), case: case.clone(), detail: format!("(RF,RP) = ({},{}) expected ({},{})", nf, np, rf.rf, rf.rp) });
                }
                if c != rf.c {
                    let i = c.iter().zip(rf.c.iter()).position(|(a, b)| a != b);
                    out.push(Discrepancy { key: format!("C09/constants/t-{}/round-constants", t), case: case.clone(), detail: format!("lengths {} vs {}, first mismatch {:?}", c.len(), rf.c.len(), i) });
                }
                if m != rf.m {
                    out.push(Discrepancy { key: format!("C09/constants/t-{}/mds", t), case: case.clone(), detail: "MDS matrix differs".into() });
                }
                (rf.c.len() + t * t) as u64
            }
            Ok(None) => { out.push(Discrepancy { key: format!("C09/constants/t-{}/missing", t), case, detail: "no parameters".into() }); 0 }
            Err(m) => { out.push(Discrepancy { key: format!("C09/constants/t-{}/panic", t), case, detail: m }); 0 }
        }
    }
}

fn codes_is_hash(case: &Value, k: usize) -> bool {
    case["calls"][k].as_u64().map(|c| c <= 2).unwrap_or(false)
}

pub fn pattern(kind: &str, len: usize, seed: u64) -> Vec<u8> {
    match kind {
        "zero" => vec![0u8; len],
        "ff" => vec![0xffu8; len],
        "counter" => (0..len).map(|i| (i % 251) as u8).collect(),
        "a" => vec![b'a'; len],
        _ => SplitMix(seed ^ (len as u64).wrapping_mul(0x9E37)).bytes(len),
    }
}

impl Prop for C09 {
    fn id(&self) -> &'static str { "C09" }
    fn level(&self) -> &'static str { "exploration" }

    fn run_case(&self, case: &Value) -> Vec<Discrepancy> {
        let mut out = vec![];
        match case["kind"].as_str().unwrap_or("") {
            "poseidon" => {
                let inp: Vec<BigUint> = case["inputs"].as_array().unwrap().iter().map(bdec).collect();
                self.poseidon_case(&inp, &mut out);
            }
            "hash_to_field" => {
                let d = &case["data"];
                let data = pattern(d["pattern"].as_str().unwrap(), d["len"].as_u64().unwrap() as usize, d["seed"].as_u64().unwrap_or(1));
                self.h2f_case(&data, d, &mut out);
            }
            "constants" => { self.constants_case(case["t"].as_u64().unwrap() as usize, &mut out); }
            "seq" => out.extend(self.seq(case["entry"].as_u64().unwrap_or(0) as u8, &case["calls"].as_array().cloned().unwrap_or_default().iter().map(|x| x.as_u64().unwrap_or(0) as u8).collect::<Vec<u8>>())),
            _ => {}
        }
        out
    }

    fn explore(&self, ctx: &Ctx, findings: &Findings, ev: &mut Evidence) -> Result<(), String> {
        let mut fs = fstar();
        fs.extend(limb_patterns(ctx.seed));
        let mut rng = SplitMix(ctx.seed);
        // ---- Poseidon vectors
        let mut vectors: Vec<Vec<BigUint>> = vec![];
        for n in 1..=8usize {
            let default: Vec<BigUint> = (1..=n as u64).map(big).collect();
            for f in fs.iter() {
                vectors.push(vec![f.clone(); n]);
            }
            // inputs that make a state element exactly zero after the first round-constant addition (and hence after
            // the first S-box layer): x_i = -c[i] of the reference constants, one position at a time and in pairs
            {
                let prm = crate::refmodel::poseidon::params(n + 1);
                let zero_at = |i: usize| fneg(&prm.c[i + 1]);
                for i in 0..n {
                    let mut v = default.clone();
                    v[i] = zero_at(i);
                    vectors.push(v.clone());
                    for j in (i + 1)..n {
                        let mut w = v.clone();
                        w[j] = zero_at(j);
                        vectors.push(w);
                    }
                }
            }
            let k = 2; // both tiers: every vector within two deviations, all arities
            let sizes = vec![fs.len() + 1; n];
            for dv in deviations(&sizes, k) {
                vectors.push(dv.iter().enumerate().map(|(i, &a)| if a == 0 { default[i].clone() } else { fs[a - 1].clone() }).collect());
            }
            for _ in 0..ctx.tier.pick(4, 32) {
                vectors.push((0..n).map(|_| rng.field()).collect());
            }
        }
        vectors.sort();
        vectors.dedup();
        vectors.sort_by_key(|v| v.len());
        let res = par_map(&vectors, ncpu(), |_, v| { let mut o = vec![]; self.poseidon_case(v, &mut o); o });
        for o in res { findings.report_all(o); }
        let n_pos = vectors.len() as u64;

        // ---- constants, element-wise
        let mut consts = 0u64;
        let mut o = vec![];
        for t in 2..=9 { consts += self.constants_case(t, &mut o); }
        findings.report_all(o);

        // ---- hash_to_field: every length 0..=300 (quick) / 0..=600 (thorough) x patterns, plus long inputs
        let mut h2f: Vec<Value> = vec![];
        let maxlen = ctx.tier.pick(300, 600);
        for len in 0..=maxlen {
            for pat in ["zero", "ff", "counter"] {
                h2f.push(json!({"pattern": pat, "len": len, "seed": ctx.seed}));
            }
            h2f.push(json!({"pattern": "random", "len": len, "seed": ctx.seed}));
        }
        // (around the 8 KiB, 64 KiB and 128 KiB buffer sizes a streaming reader may use)
        for len in [1000usize, 4096, 8191, 8192, 8193, 65535, 65536, 65537, 131072, 131073] {
            for pat in ["zero", "counter", "random"] {
                if len > 8193 && pat != "counter" && ctx.tier == Tier::Quick {
                    continue;
                }
                h2f.push(json!({"pattern": pat, "len": len, "seed": ctx.seed}));
            }
        }
        if ctx.tier == Tier::Thorough {
            for len in [136 * 10 - 1, 136 * 10, 136 * 10 + 1, 1 << 20] { h2f.push(json!({"pattern": "counter", "len": len, "seed": ctx.seed})); }
        }
        let res = par_map(&h2f, ncpu(), |_, d| {
            let data = pattern(d["pattern"].as_str().unwrap(), d["len"].as_u64().unwrap() as usize, d["seed"].as_u64().unwrap());
            let mut o = vec![]; self.h2f_case(&data, d, &mut o); o
        });
        for o in res { findings.report_all(o); }

        // byte-level call sequences on one fresh thread, valid and malformed calls mixed
        let mut seqs: Vec<(u8, Vec<u8>)> = vec![];
        {
            let mut cur: Vec<Vec<u8>> = vec![vec![]];
            for _ in 0..ctx.tier.pick(3, 4) {
                let mut next = vec![];
                for h in &cur {
                    for c in 0u8..8 {
                        let mut n = h.clone();
                        n.push(c);
                        next.push(n);
                    }
                }
                for n in &next {
                    seqs.push((0, n.clone()));
                    seqs.push((1, n.clone()));
                }
                cur = next;
            }
        }
        let sres = par_map(&seqs, ncpu(), |_, (e, c)| self.seq(*e, c));
        for r in sres { findings.report_all(r); }
        ev.set("call_sequences_on_one_thread", json!(seqs.len()));
        let evals = (n_pos + h2f.len() as u64) * 5 + consts + seqs.len() as u64;
        ev.set("evaluations", json!(evals));
        ev.set("distinct_nontrivial", json!(n_pos + h2f.len() as u64 + 8));
        ev.set("poseidon_vectors", json!(n_pos));
        ev.set("hash_to_field_inputs", json!(h2f.len()));
        ev.set("constants_compared", json!(consts));
        ev.set("rule", json!("Poseidon: for each arity n=1..8 every vector within k deviations of [1..n] over F* (k=2 for n<=3 quick / all n thorough, else 1), all-equal F* vectors, seeded randoms; deduplicated; each through typed, byte-level and FFI entry points (typed twice), on 16 threads. Constants: every round constant and MDS entry for t=2..9 against the reference Grain generation. hash_to_field: every length 0..=300 (600 thorough) x {00,ff,counter,random} + long inputs, same entry points. History independence: every sequence of up to 3 (thorough 4) byte-level calls over {hash of 3 inputs, poseidon_hash of 2 inputs, 3 malformed poseidon_hash inputs}, through rln::public and through the FFI, each sequence on a fresh thread, every valid call compared with the reference. distinct_nontrivial counts distinct inputs (+8 constant sets), not calls."));
        ev.set("deviation_bound", json!("k<=2 for every arity 1..8"));
        ev.set("exhaustive", json!(true));
        ev.sample(json!({"kind":"poseidon","inputs":["1","2"]}));
        ev.sample(json!({"kind":"poseidon","inputs": vectors.last().unwrap().iter().map(sdec).collect::<Vec<_>>()}));
        ev.sample(json!({"kind":"hash_to_field","data":{"pattern":"counter","len":136}}));
        ev.assume("reference Poseidon (own Grain LFSR + BigUint permutation) reproduces 7 published circomlib vectors (arities 1,2,4,5,6) at start-up; reference Keccak-256 reproduces the vectors for \"\" and \"abc\"");
        ev.assume("inputs outside the enumerated alphabets/lengths are not covered");
        Ok(())
    }
}
