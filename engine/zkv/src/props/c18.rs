//! C18 — results do not depend on thread count or interleaving.
//! (a) loom: every schedule up to a preemption bound of pmtree's real parallel batch
//!     recomputation; (b) call-granularity interleavings of K threads on one shared instance
//!     (baton scheduler, exhaustive); (c) worker-pool sizes {1,2,4,16} in subprocesses, cross
//!     verification; (d) re-creation of an instance on a location that is still locked;
//!     (e) free-running overlap and first-toucher orders — sampled, labelled so.
use super::c16::{Cfg as StoreCfg, Op as StoreOp, C16};
use super::msg::*;
use super::rlnsub::*;
use super::tree::TreeOp;
use super::*;
use crate::refmodel::codec;
use crate::refmodel::field::*;
use crate::refmodel::keccak;
use crate::refmodel::tree::IdealTree;
use rln::public::RLN;
use serde_json::json;
use std::io::Cursor;
use std::process::Command;
use std::sync::mpsc::{channel, Receiver, Sender};
use std::sync::{Arc, Barrier};

pub struct C18;

// ------------------------------------------------------------------------------------------
// the read-only call alphabet on a shared instance
// ------------------------------------------------------------------------------------------

pub struct Shared {
    pub rln: Arc<RLN>,
    pub req: Req,
    pub msg: Vec<u8>,
    pub tampered: Vec<u8>,
    pub root: BigUint,
}

pub const NCALLS: usize = 12;
pub const CALL_NAMES: [&str; NCALLS] = ["verify(ok)", "verify_with_roots(tampered,[root])", "hash", "seeded_key_gen", "get_proof", "get_root", "verify_rln_proof(ok)", "poseidon_hash", "get_leaf", "get_empty_leaves_indices", "get_subtree_root", "verify_with_roots(ok,[root])"];

fn rd(b: &[u8]) -> Cursor<Vec<u8>> {
    Cursor::new(b.to_vec())
}

/// one call; the result is rendered as bytes so that results can be compared for equality
pub fn do_call(s: &Shared, c: usize) -> Vec<u8> {
    let r = guard(|| -> Vec<u8> {
        let rln = &s.rln;
        let b = |x: color_eyre::Result<bool>| match x { Ok(true) => b"true".to_vec(), Ok(false) => b"false".to_vec(), Err(e) => format!("err:{e}").into_bytes() };
        let o = |x: color_eyre::Result<()>, c: Cursor<Vec<u8>>| match x { Ok(()) => c.into_inner(), Err(e) => format!("err:{e}").into_bytes() };
        match c {
            0 => b(rln.verify(rd(&s.msg))),
            1 => b(rln.verify_with_roots(rd(&with_signal(&s.tampered, &s.req.signal)), rd(&codec::fr(&s.root)))),
            2 => { let mut c = Cursor::new(vec![]); let x = rln::public::hash(rd(b"abc"), &mut c); o(x, c) }
            3 => { let mut c = Cursor::new(vec![]); let x = rln.seeded_key_gen(rd(b"seed"), &mut c); o(x, c) }
            4 => { let mut c = Cursor::new(vec![]); let x = rln.get_proof(s.req.index as usize, &mut c); o(x, c) }
            5 => { let mut c = Cursor::new(vec![]); let x = rln.get_root(&mut c); o(x, c) }
            6 => b(rln.verify_rln_proof(rd(&with_signal(&s.msg, &s.req.signal)))),
            7 => { let mut c = Cursor::new(vec![]); let x = rln::public::poseidon_hash(rd(&codec::vec_fr(&[big(1), big(2)])), &mut c); o(x, c) }
            8 => { let mut c = Cursor::new(vec![]); let x = rln.get_leaf(s.req.index as usize, &mut c); o(x, c) }
            9 => { let mut c = Cursor::new(vec![]); let x = rln.get_empty_leaves_indices(&mut c); let mut v = o(x, c); v.truncate(64); v }
            10 => { let mut c = Cursor::new(vec![]); let x = rln.get_subtree_root(10, s.req.index as usize, &mut c); o(x, c) }
            _ => b(rln.verify_with_roots(rd(&with_signal(&s.msg, &s.req.signal)), rd(&codec::fr(&s.root)))),
        }
    });
    r.unwrap_or_else(|p| format!("panic:{p}").into_bytes())
}

pub fn make_shared(r: &Req) -> Result<Shared, String> {
    let mut rln = RLN::new(DEPTH, Cursor::new(json!({}).to_string())).map_err(|e| e.to_string())?;
    let s = setup_tree(&mut rln, r)?;
    let msg = match prove_via(&mut rln, r, &s, Entry::Tree, false) { PResult::Ok(m) => m, o => return Err(format!("{:?}", o)) };
    let mut tampered = msg.clone();
    tampered[128 + 96] ^= 1;
    Ok(Shared { rln: Arc::new(rln), req: r.clone(), msg, tampered, root: s.root })
}

/// expected results from the references, where one exists (the rest is compared with the
/// sequential run on the same instance)
fn reference_results(s: &Shared) -> Vec<Option<Vec<u8>>> {
    let mut t = IdealTree::new(DEPTH);
    let rate = rate_commitment(&s.req.secret, &s.req.limit);
    t.set(s.req.index, &rate);
    let (path, bits) = t.path(s.req.index);
    let mut proof = codec::vec_fr(&path);
    proof.extend(codec::vec_u8(&bits));
    vec![
        Some(b"true".to_vec()), Some(b"false".to_vec()), Some(codec::fr(&keccak::hash_to_field(b"abc"))), None, Some(proof), Some(codec::fr(&s.root)),
        Some(b"true".to_vec()), Some(codec::fr(&crate::refmodel::poseidon::hash(&[big(1), big(2)]))), Some(codec::fr(&rate)), None, Some(codec::fr(&t.node(10, s.req.index >> 10))), Some(b"true".to_vec()),
    ]
}

// ------------------------------------------------------------------------------------------
// (b) baton scheduler
// ------------------------------------------------------------------------------------------

struct Baton {
    tx: Vec<Sender<Option<usize>>>,
    rx: Vec<Receiver<Vec<u8>>>,
    handles: Vec<std::thread::JoinHandle<()>>,
}
impl Baton {
    fn new(k: usize, shared: Arc<Shared>) -> Baton {
        let mut tx = vec![];
        let mut rx = vec![];
        let mut handles = vec![];
        for _ in 0..k {
            let (jt, jr) = channel::<Option<usize>>();
            let (rt, rr) = channel::<Vec<u8>>();
            let sh = shared.clone();
            handles.push(std::thread::spawn(move || {
                while let Ok(Some(c)) = jr.recv() {
                    let _ = rt.send(do_call(&sh, c));
                }
            }));
            tx.push(jt);
            rx.push(rr);
        }
        Baton { tx, rx, handles }
    }
    /// runs call `c` on thread `t` and waits for it: exactly one thread is running at any time
    fn step(&self, t: usize, c: usize) -> Vec<u8> {
        self.tx[t].send(Some(c)).expect("worker alive");
        self.rx[t].recv().expect("worker answered")
    }
}
impl Drop for Baton {
    fn drop(&mut self) {
        for t in &self.tx {
            let _ = t.send(None);
        }
        for h in self.handles.drain(..) {
            let _ = h.join();
        }
    }
}

/// all interleavings of k threads with `per` steps each (sequences of thread ids)
fn interleavings(k: usize, per: usize) -> Vec<Vec<usize>> {
    fn rec(left: &mut Vec<usize>, cur: &mut Vec<usize>, out: &mut Vec<Vec<usize>>) {
        if left.iter().all(|x| *x == 0) {
            out.push(cur.clone());
            return;
        }
        for t in 0..left.len() {
            if left[t] > 0 {
                left[t] -= 1;
                cur.push(t);
                rec(left, cur, out);
                cur.pop();
                left[t] += 1;
            }
        }
    }
    let mut out = vec![];
    rec(&mut vec![per; k], &mut vec![], &mut out);
    out
}

/// all assignments of `slots` calls over the alphabet `alpha`
fn assignments(alpha: &[usize], slots: usize) -> Vec<Vec<usize>> {
    let mut out: Vec<Vec<usize>> = vec![vec![]];
    for _ in 0..slots {
        let mut next = vec![];
        for a in &out {
            for c in alpha {
                let mut n = a.clone();
                n.push(*c);
                next.push(n);
            }
        }
        out = next;
    }
    out
}

impl C18 {
    fn baton(&self, k: usize, per: usize, alpha: &[usize], groups: usize, findings: &Findings) -> Result<(u64, u64, std::collections::BTreeSet<String>), String> {
        let ints = interleavings(k, per);
        let asg = assignments(alpha, k * per);
        let chunks: Vec<Vec<Vec<usize>>> = (0..groups).map(|g| asg.iter().skip(g).step_by(groups).cloned().collect()).collect();
        let d0 = Req::default_req();
        let res = par_map(&chunks, groups, |_, chunk| -> Result<(Vec<Discrepancy>, u64, std::collections::BTreeSet<String>), String> {
            let shared = Arc::new(make_shared(&d0)?);
            let oracle: Vec<Vec<u8>> = (0..NCALLS).map(|c| do_call(&shared, c)).collect();
            let refs = reference_results(&shared);
            let mut out = vec![];
            for (c, r) in refs.iter().enumerate() {
                if let Some(r) = r {
                    if *r != oracle[c] {
                        out.push(Discrepancy { key: format!("C18/sequential/{}/differs-from-reference", CALL_NAMES[c]), case: json!({"kind":"sequential","call":c}), detail: format!("{} made alone returns {} but the reference says {}", CALL_NAMES[c], hex(&oracle[c][..oracle[c].len().min(40)]), hex(&r[..r.len().min(40)])) });
                    }
                }
            }
            let baton = Baton::new(k, shared.clone());
            let mut n = 0u64;
            let mut outcomes = std::collections::BTreeSet::new();
            for a in chunk {
                for sched in &ints {
                    // thread t's j-th step performs call a[t*per + j]
                    let mut pos = vec![0usize; k];
                    for &t in sched {
                        let c = a[t * per + pos[t]];
                        pos[t] += 1;
                        let got = baton.step(t, c);
                        if got != oracle[c] {
                            out.push(Discrepancy { key: format!("C18/interleaving/{}/differs-from-sequential", CALL_NAMES[c]), case: json!({"kind":"baton","threads":k,"per":per,"calls":a,"schedule":sched}), detail: format!("{} on thread {t} returned {} in this interleaving, {} when made alone", CALL_NAMES[c], String::from_utf8_lossy(&got[..got.len().min(60)]), String::from_utf8_lossy(&oracle[c][..oracle[c].len().min(60)])) });
                        }
                        outcomes.insert(format!("{}:{}", c, hex(&got[..got.len().min(8)])));
                    }
                    n += 1;
                }
            }
            Ok((out, n, outcomes))
        });
        let mut total = 0;
        let mut outcomes = std::collections::BTreeSet::new();
        for r in res {
            let (o, n, oc) = r?;
            findings.report_all(o);
            total += n;
            outcomes.extend(oc);
        }
        Ok((total, ints.len() as u64, outcomes))
    }

    /// (e) free-running overlap: sampled
    fn overlap(&self, rounds: usize, threads: usize, findings: &Findings, seed: u64) -> Result<u64, String> {
        let shared = Arc::new(make_shared(&Req::default_req())?);
        let oracle: Arc<Vec<Vec<u8>>> = Arc::new((0..NCALLS).map(|c| do_call(&shared, c)).collect());
        let mut rng = SplitMix(seed ^ 0xC18);
        let mut n = 0u64;
        for round in 0..rounds {
            let scripts: Vec<Vec<usize>> = (0..threads).map(|_| (0..6).map(|_| (rng.next_u64() % NCALLS as u64) as usize).collect()).collect();
            let barrier = Arc::new(Barrier::new(threads));
            let hs: Vec<_> = scripts.iter().cloned().map(|sc| {
                let (sh, or, b) = (shared.clone(), oracle.clone(), barrier.clone());
                std::thread::spawn(move || {
                    b.wait();
                    sc.iter().filter(|c| do_call(&sh, **c) != or[**c]).map(|c| *c).collect::<Vec<usize>>()
                })
            }).collect();
            for (t, h) in hs.into_iter().enumerate() {
                match h.join() {
                    Ok(bad) => for c in bad {
                        findings.report(Discrepancy { key: format!("C18/overlap/{}/differs-from-sequential", CALL_NAMES[c]), case: json!({"kind":"overlap","round":round,"scripts":scripts}), detail: format!("{} returned a different result on thread {t} while {} threads were running concurrently", CALL_NAMES[c], threads) });
                    },
                    Err(_) => findings.report(Discrepancy { key: "C18/overlap/thread-panicked".into(), case: json!({"kind":"overlap","round":round,"scripts":scripts}), detail: "a thread died".into() }),
                }
            }
            n += (threads * 6) as u64;
        }
        Ok(n)
    }

    /// (e') free-running stress of the read-only tree queries with a DIFFERENT argument per thread (a memo or
    /// scratch buffer shared between calls shows only when calls for different positions really overlap): sampled
    fn stress(&self, per_thread: usize, findings: &Findings) -> Result<u64, String> {
        let mut rln = RLN::new(DEPTH, Cursor::new(json!({}).to_string())).map_err(|e| e.to_string())?;
        let positions: Vec<usize> = vec![0, 1, 255, 256, (1 << 19) - 1, 1 << 19, 0xAAAAA, (1 << 20) - 1];
        for (k, p) in positions.iter().enumerate() {
            rln.set_leaf(*p, Cursor::new(codec::fr(&big(9000 + k as u64)))).map_err(|e| e.to_string())?;
        }
        let rln = Arc::new(rln);
        let query = |r: &RLN, which: usize, p: usize| -> Vec<u8> {
            let mut c = Cursor::new(vec![]);
            let x = match which { 0 => r.get_proof(p, &mut c), 1 => r.get_leaf(p, &mut c), _ => r.get_subtree_root(7, p, &mut c) };
            match x { Ok(()) => c.into_inner(), Err(e) => format!("err:{e}").into_bytes() }
        };
        // sequential oracle, checked against the ideal tree
        let mut t = IdealTree::new(DEPTH);
        for (k, p) in positions.iter().enumerate() {
            t.set(*p as u64, &big(9000 + k as u64));
        }
        let oracle: Vec<Vec<Vec<u8>>> = positions.iter().map(|p| (0..3).map(|w| query(&rln, w, *p)).collect()).collect();
        for (k, p) in positions.iter().enumerate() {
            let (path, bits) = t.path(*p as u64);
            let mut want = codec::vec_fr(&path);
            want.extend(codec::vec_u8(&bits));
            if oracle[k][0] != want || oracle[k][1] != codec::fr(&big(9000 + k as u64)) || oracle[k][2] != codec::fr(&t.node(7, (*p as u64) >> 13)) {
                findings.report(Discrepancy { key: "C18/sequential/tree-query/differs-from-reference".into(), case: json!({"kind":"stress","position":p}), detail: format!("a tree query for position {p} made alone differs from the ideal tree") });
            }
        }
        let oracle = Arc::new(oracle);
        let barrier = Arc::new(Barrier::new(positions.len()));
        let hs: Vec<_> = positions.iter().cloned().enumerate().map(|(k, p)| {
            let (r, o, b) = (rln.clone(), oracle.clone(), barrier.clone());
            std::thread::spawn(move || {
                b.wait();
                let mut bad = [0u64; 3];
                for it in 0..per_thread {
                    let which = if it % 8 < 6 { 0 } else if it % 8 == 6 { 1 } else { 2 };
                    let mut c = Cursor::new(Vec::with_capacity(700));
                    let x = match which { 0 => r.get_proof(p, &mut c), 1 => r.get_leaf(p, &mut c), _ => r.get_subtree_root(7, p, &mut c) };
                    if x.is_err() || c.get_ref()[..] != o[k][which][..] {
                        bad[which] += 1;
                    }
                }
                bad
            })
        }).collect();
        for (k, h) in hs.into_iter().enumerate() {
            match h.join() {
                Ok(bad) => for (w, n) in bad.iter().enumerate() {
                    if *n > 0 {
                        findings.report(Discrepancy { key: format!("C18/overlap/{}/differs-from-sequential", ["get_proof", "get_leaf", "get_subtree_root"][w]), case: json!({"kind":"stress","position":positions[k],"per_thread":per_thread}), detail: format!("{} of {} overlapping {} calls for position {} returned something else than the call made alone ({} threads querying different positions)", n, per_thread, ["get_proof", "get_leaf", "get_subtree_root"][w], positions[k], positions.len()) });
                    }
                },
                Err(_) => findings.report(Discrepancy { key: "C18/overlap/thread-panicked".into(), case: json!({"kind":"stress"}), detail: "a querying thread died".into() }),
            }
        }
        Ok((per_thread * positions.len()) as u64)
    }

    /// (e'') free-running stress of the stateless entry points with DIFFERENT inputs per thread (hashing, Poseidon,
    /// seeded key derivation, verification of the thread's own message): sampled
    fn stress_stateless(&self, per_thread: usize, findings: &Findings) -> Result<u64, String> {
        let threads = 8usize;
        // one shared instance; thread t owns message t (proved beforehand, sequentially)
        let d0 = Req::default_req();
        let mut rln = RLN::new(DEPTH, Cursor::new(json!({}).to_string())).map_err(|e| e.to_string())?;
        let s = setup_tree(&mut rln, &d0)?;
        let mut msgs: Vec<(Vec<u8>, Vec<u8>)> = vec![];
        for t in 0..threads {
            let r = Req { signal: format!("signal of thread {t}").into_bytes(), id: big(t as u64), ..d0.clone() };
            match prove_via(&mut rln, &r, &s, Entry::Tree, false) {
                PResult::Ok(m) => msgs.push((m, r.signal.clone())),
                o => return Err(format!("{:?}", o)),
            }
        }
        let rln = Arc::new(rln);
        let root = codec::fr(&s.root);
        let call = move |r: &RLN, which: usize, t: usize, msgs: &Vec<(Vec<u8>, Vec<u8>)>, root: &Vec<u8>| -> Vec<u8> {
            let mut c = Cursor::new(Vec::with_capacity(160));
            match which {
                0 => { let _ = rln::public::hash(Cursor::new(vec![t as u8; 10 + 40 * t]), &mut c); c.into_inner() }
                1 => { let v: Vec<BigUint> = (0..(1 + t % 8)).map(|k| big((t * 1000 + k) as u64)).collect(); let _ = rln::public::poseidon_hash(Cursor::new(codec::vec_fr(&v)), &mut c); c.into_inner() }
                2 => { let _ = r.seeded_key_gen(Cursor::new(vec![t as u8; 5 + t]), &mut c); c.into_inner() }
                3 => { let _ = r.seeded_extended_key_gen(Cursor::new(vec![t as u8; 70 + t]), &mut c); c.into_inner() }
                _ => match r.verify_with_roots(Cursor::new(with_signal(&msgs[t].0, &msgs[t].1)), Cursor::new(root.clone())) { Ok(true) => b"true".to_vec(), Ok(false) => b"false".to_vec(), Err(e) => e.to_string().into_bytes() },
            }
        };
        let msgs = Arc::new(msgs);
        let root = Arc::new(root);
        let oracle: Vec<Vec<Vec<u8>>> = (0..threads).map(|t| (0..5).map(|w| call(&rln, w, t, &msgs, &root)).collect()).collect();
        // the sequential answers against the references where there is one
        for t in 0..threads {
            if oracle[t][0] != codec::fr(&keccak::hash_to_field(&vec![t as u8; 10 + 40 * t])) || oracle[t][4] != b"true".to_vec() {
                findings.report(Discrepancy { key: "C18/sequential/stateless-call/differs-from-reference".into(), case: json!({"kind":"stress2","thread":t}), detail: "hash or verification made alone differs from the reference".into() });
            }
        }
        let oracle = Arc::new(oracle);
        let barrier = Arc::new(Barrier::new(threads));
        let hs: Vec<_> = (0..threads).map(|t| {
            let (r, o, b, m, ro) = (rln.clone(), oracle.clone(), barrier.clone(), msgs.clone(), root.clone());
            std::thread::spawn(move || {
                b.wait();
                let mut bad = [0u64; 5];
                for it in 0..per_thread {
                    // verification is three orders of magnitude slower than the rest: one call in 2000
                    let which = if it % 2000 == 1999 { 4 } else { it % 4 };
                    if call(&r, which, t, &m, &ro) != o[t][which] {
                        bad[which] += 1;
                    }
                }
                bad
            })
        }).collect();
        let names = ["hash", "poseidon_hash", "seeded_key_gen", "seeded_extended_key_gen", "verify_with_roots"];
        for (t, h) in hs.into_iter().enumerate() {
            match h.join() {
                Ok(bad) => for (w, n) in bad.iter().enumerate() {
                    if *n > 0 {
                        findings.report(Discrepancy { key: format!("C18/overlap/{}/differs-from-sequential", names[w]), case: json!({"kind":"stress2","thread":t,"per_thread":per_thread}), detail: format!("{} overlapping {} calls of thread {t} (own inputs) returned something else than the same call made alone", n, names[w]) });
                    }
                },
                Err(_) => findings.report(Discrepancy { key: "C18/overlap/thread-panicked".into(), case: json!({"kind":"stress2"}), detail: "a thread died".into() }),
            }
        }
        Ok((per_thread * threads) as u64)
    }

    /// (a) loom
    fn loom(&self, q: bool, findings: &Findings) -> Result<(u64, u64, Vec<Value>), String> {
        let bin = std::path::PathBuf::from(std::env::var("ZKV_BIN_DIR").unwrap_or_else(|_| "/verif/target/bin".into())).join("pmtree-loom");
        if !bin.exists() {
            return Err(format!("{} is missing (run ./check --setup)", bin.display()));
        }
        // (depth, start, len, prefill): every range of every depth <= 2, with an empty and a prefilled tree
        let mut shapes: Vec<(usize, usize, usize, usize)> = vec![];
        for d in 1..=2usize {
            let c = 1usize << d;
            for s in 0..c {
                for l in 1..=(c - s) {
                    shapes.push((d, s, l, 0));
                    shapes.push((d, s, l, c));
                }
            }
            shapes.push((d, c - 1, 2, 0)); // rejected
        }
        let bound = if q { 3 } else { 4 };
        let res = par_map(&shapes, ncpu(), |_, (d, s, l, pre)| -> Result<(u64, bool, String), String> {
            let o = Command::new(&bin).args([d.to_string(), s.to_string(), l.to_string(), pre.to_string()]).env("LOOM_MAX_PREEMPTIONS", bound.to_string()).output().map_err(|e| e.to_string())?;
            let out = String::from_utf8_lossy(&o.stdout).to_string();
            let err = String::from_utf8_lossy(&o.stderr).to_string();
            if o.status.success() {
                let v: Value = serde_json::from_str(out.trim()).map_err(|e| format!("pmtree-loom output: {e}: {out}"))?;
                Ok((v["schedules"].as_u64().unwrap_or(0), true, String::new()))
            } else {
                Ok((0, false, err.lines().filter(|l| l.contains("panicked") || l.contains("differs") || l.contains("deadlock")).take(3).collect::<Vec<_>>().join(" | ")))
            }
        });
        let mut total = 0u64;
        let mut samples = vec![];
        for ((d, s, l, pre), r) in shapes.iter().zip(res.into_iter()) {
            let (n, ok, msg) = r?;
            total += n;
            if !ok {
                findings.report(Discrepancy { key: "C18/loom/batch-recomputation/schedule-dependent".into(), case: json!({"kind":"loom","depth":d,"start":s,"len":l,"prefill":pre,"bound":bound}), detail: format!("loom found a schedule (<= {bound} preemptions) of the parallel batch recomputation with a wrong root/leaf, a deadlock or a panic for depth {d}, set_range({s}, {l} leaves): {msg}") });
            }
            if samples.len() < 3 && n > 100 {
                samples.push(json!({"depth": d, "start": s, "len": l, "prefill": pre, "schedules": n}));
            }
        }
        Ok((total, shapes.len() as u64, samples))
    }

    /// (c) worker-pool sizes
    fn pools(&self, q: bool, findings: &Findings, scratch: &std::path::Path) -> Result<u64, String> {
        let exe = crate::explore::self_exe()?;
        // the property names {1,2,4,16}; the thorough tier adds the sizes in between
        let sizes: Vec<usize> = if q { vec![1, 2, 4, 16] } else { vec![1, 2, 3, 4, 5, 6, 8, 16] };
        let dir = scratch.join(format!("c18-{}", std::process::id()));
        std::fs::create_dir_all(&dir).map_err(|e| e.to_string())?;
        let tier = if q { "quick" } else { "thorough" };
        let r1 = par_map(&sizes, 4, |_, n| -> Result<Value, String> {
            let out = dir.join(format!("pool-{n}.json"));
            let st = Command::new(&exe).args(["--worker", "pool", tier, out.to_str().unwrap()]).env("RAYON_NUM_THREADS", n.to_string()).stderr(std::process::Stdio::null()).status().map_err(|e| e.to_string())?;
            if !st.success() {
                return Err(format!("pool worker with {n} threads exited with {:?}", st.code()));
            }
            serde_json::from_str(&std::fs::read_to_string(&out).map_err(|e| e.to_string())?).map_err(|e| e.to_string())
        });
        let mut ts = vec![];
        for r in r1 {
            ts.push(r?);
        }
        let mut n = 0u64;
        for (k, t) in ts.iter().enumerate() {
            for f in ["roots", "witness_hashes", "values", "verdicts"] {
                n += 1;
                if t[f] != ts[0][f] {
                    findings.report(Discrepancy { key: format!("C18/pool-size/{f}/differs"), case: json!({"kind":"pool","sizes":[sizes[0], sizes[k]]}), detail: format!("{f} computed with {} worker threads differ from those computed with {}", sizes[k], sizes[0]) });
                }
            }
            if t["reference_ok"] != true {
                findings.report(Discrepancy { key: "C18/pool-size/differs-from-reference".into(), case: json!({"kind":"pool","sizes":[sizes[k]]}), detail: format!("with {} worker threads: {}", sizes[k], t["reference_detail"]) });
            }
        }
        // messages produced under size A verified under size B
        let files: Vec<String> = sizes.iter().map(|n| dir.join(format!("pool-{n}.json")).to_str().unwrap().to_string()).collect();
        let r2 = par_map(&sizes, 4, |_, n| -> Result<Value, String> {
            let o = Command::new(&exe).args(["--worker", "poolverify"]).args(&files).env("RAYON_NUM_THREADS", n.to_string()).stderr(std::process::Stdio::null()).output().map_err(|e| e.to_string())?;
            serde_json::from_str(String::from_utf8_lossy(&o.stdout).trim()).map_err(|e| format!("poolverify: {e}"))
        });
        for (k, r) in r2.into_iter().enumerate() {
            let v = r?;
            for (j, row) in v["accepted"].as_array().cloned().unwrap_or_default().iter().enumerate() {
                n += 1;
                if row.as_array().map(|a| a.iter().any(|x| x != true)).unwrap_or(true) {
                    findings.report(Discrepancy { key: "C18/pool-size/cross-verification/rejected".into(), case: json!({"kind":"pool","producer_threads":sizes[j],"verifier_threads":sizes[k]}), detail: format!("a message produced with {} worker threads is not accepted with {}: {}", sizes[j], sizes[k], row) });
                }
            }
        }
        let _ = std::fs::remove_dir_all(&dir);
        Ok(n)
    }

    /// (d) re-creation on a location whose lock is still held
    fn relock(&self, q: bool, findings: &Findings) -> u64 {
        let c16 = C16;
        let hist = vec![StoreOp::T(TreeOp::Set(0, 1)), StoreOp::T(TreeOp::Set(5, 2))];
        let cfg = StoreCfg { cache: Some(1 << 20), flush_ms: None, mode: "HighThroughput", compression: false, depth: 3 };
        let mut n = 0;
        for round in 0..(if q { 10 } else { 50 }) {
            let (d, took) = c16.locked_reopen(&hist, &cfg, 0);
            n += 1;
            for x in d {
                findings.report(Discrepancy { key: x.key.replace("C16/locked-reopen", "C18/reopen-after-drop"), case: x.case, detail: format!("round {round}: {}", x.detail) });
            }
            if took > 1.5 {
                findings.report(Discrepancy { key: "C18/reopen-after-drop/too-slow".into(), case: json!({"kind":"relock","hold_ms":0}), detail: format!("re-creating the instance right after the drop took {took:.2} s") });
            }
        }
        for (hold, bound) in [(0u64, 1.5f64), (20, 1.5), (100, 3.0)] {
            let (d, took) = c16.locked_reopen(&hist, &cfg, hold);
            n += 1;
            for x in d {
                findings.report(Discrepancy { key: x.key.replace("C16/locked-reopen", "C18/reopen-under-lock"), case: x.case, detail: x.detail });
            }
            if took > bound {
                findings.report(Discrepancy { key: "C18/reopen-under-lock/too-slow".into(), case: json!({"kind":"relock","hold_ms":hold}), detail: format!("with the lock held for {hold} ms the open took {took:.2} s (bound {bound} s from the retry ladder 1+10+100+1000 ms)") });
            }
        }
        n
    }

    /// first-toucher orders of the lazily initialised globals, each in a fresh process
    fn first_touch(&self, findings: &Findings) -> Result<u64, String> {
        let exe = crate::explore::self_exe()?;
        // first calls: hash-to-field, verification on a fresh instance, seeded key generation, and Poseidon with each
        // number of inputs 1..8 (each arity has its own parameter set)
        let kinds = ["hash", "verify", "seeded_key_gen", "poseidon1", "poseidon2", "poseidon3", "poseidon4", "poseidon5", "poseidon6", "poseidon7", "poseidon8"];
        let mut items = vec![];
        for a in kinds {
            for b in kinds {
                items.push((a, b));
                items.push((b, a));
            }
        }
        items.sort();
        items.dedup();
        // all eight arities at once, and the three others at once
        items.push(("all-poseidon", ""));
        items.push(("all-poseidon", ""));
        items.push(("all-kinds", ""));
        let want_hash = hex(&codec::fr(&keccak::hash_to_field(b"abc")));
        let res = par_map(&items, ncpu(), |_, (a, b)| -> Result<Value, String> {
            let o = Command::new(&exe).args(["--worker", "firsttouch", a, b]).stderr(std::process::Stdio::null()).output().map_err(|e| e.to_string())?;
            serde_json::from_str(String::from_utf8_lossy(&o.stdout).trim()).map_err(|e| format!("firsttouch {a} {b}: {e} (exit {:?})", o.status.code()))
        });
        let mut n = 0;
        let mut keyref: Option<String> = None;
        for ((a, b), r) in items.iter().zip(res.into_iter()) {
            let v = r?;
            n += 1;
            let kinds_run: Vec<String> = match *a {
                "all-poseidon" => (1..=8).map(|n| format!("poseidon{n}")).collect(),
                "all-kinds" => kinds.iter().map(|s| s.to_string()).collect(),
                _ => vec![a.to_string(), b.to_string()],
            };
            for (k, kind) in kinds_run.iter().enumerate() {
                let kind: &&str = &kind.as_str();
                let got = v["results"][k].as_str().unwrap_or("").to_string();
                let ok = match *kind {
                    "hash" => got == want_hash,
                    "verify" => got == "true",
                    pk if pk.starts_with("poseidon") => {
                        let n: u64 = pk[8..].parse().unwrap_or(1);
                        got == hex(&codec::fr(&crate::refmodel::poseidon::hash(&(1..=n).map(big).collect::<Vec<_>>())))
                    }
                    _ => { if keyref.is_none() { keyref = Some(got.clone()); } Some(&got) == keyref.as_ref() && got.len() == 128 }
                };
                if !ok {
                    let kclass = if kind.starts_with("poseidon") { "poseidon" } else { kind };
                    findings.report(Discrepancy { key: format!("C18/first-toucher/{kclass}/wrong-result"), case: json!({"kind":"firsttouch","order":[a, b]}), detail: format!("threads whose first calls are {a} {b} in a fresh process: {kind} returned {got}") });
                }
            }
        }
        Ok(n)
    }
}

impl Prop for C18 {
    fn id(&self) -> &'static str { "C18" }
    fn level(&self) -> &'static str { "model_checking" }
    fn run_case(&self, case: &Value) -> Vec<Discrepancy> {
        // replays re-run the engine that produced the case on that single case
        let findings = Findings::empty("C18");
        match case["kind"].as_str().unwrap_or("") {
            "baton" => {
                let k = case["threads"].as_u64().unwrap_or(2) as usize;
                let per = case["per"].as_u64().unwrap_or(2) as usize;
                let calls: Vec<usize> = case["calls"].as_array().map(|a| a.iter().filter_map(|x| x.as_u64().map(|y| y as usize)).collect()).unwrap_or_default();
                let sched: Vec<usize> = case["schedule"].as_array().map(|a| a.iter().filter_map(|x| x.as_u64().map(|y| y as usize)).collect()).unwrap_or_default();
                let mut out = vec![];
                if let Ok(sh) = make_shared(&Req::default_req()) {
                    let sh = Arc::new(sh);
                    let oracle: Vec<Vec<u8>> = (0..NCALLS).map(|c| do_call(&sh, c)).collect();
                    let baton = Baton::new(k, sh.clone());
                    let mut pos = vec![0usize; k];
                    for &t in &sched {
                        if t >= k || t * per + pos[t] >= calls.len() { break; }
                        let c = calls[t * per + pos[t]];
                        pos[t] += 1;
                        if baton.step(t, c) != oracle[c] {
                            out.push(Discrepancy { key: format!("C18/interleaving/{}/differs-from-sequential", CALL_NAMES[c]), case: case.clone(), detail: "replayed".into() });
                        }
                    }
                }
                out
            }
            "loom" => { let _ = self.loom(true, &findings); findings.violations() }
            "relock" => { self.relock(true, &findings); findings.violations() }
            "stress2" => { let _ = self.stress_stateless(case["per_thread"].as_u64().unwrap_or(40_000) as usize, &findings); findings.violations() }
            "stress" => { let _ = self.stress(case["per_thread"].as_u64().unwrap_or(40_000) as usize, &findings); findings.violations() }
            _ => vec![],
        }
    }
    fn explore(&self, ctx: &Ctx, findings: &Findings, ev: &mut Evidence) -> Result<(), String> {
        let q = ctx.tier == Tier::Quick;
        // (a)
        let (schedules, shapes, loom_samples) = self.loom(q, findings)?;
        // (b)
        let alpha6: Vec<usize> = vec![0, 1, 2, 3, 4, 5];
        let (n2, ints2, mut outcomes) = if q { self.baton(2, 2, &alpha6, ncpu(), findings)? } else { self.baton(2, 2, &[0, 1, 2, 3, 4, 5, 6, 9], ncpu(), findings)? };
        let (n3, ints3) = if q { (0, 0) } else {
            let (n, i, oc) = self.baton(3, 2, &[0, 3, 4], ncpu(), findings)?;
            outcomes.extend(oc);
            (n, i)
        };
        // (c)
        let npool = self.pools(q, findings, &ctx.scratch())?;
        // (d)
        let nrelock = self.relock(q, findings);
        // (e) sampled
        let nft = self.first_touch(findings)?;
        let nover = self.overlap(if q { 20 } else { 200 }, 4, findings, ctx.seed)?;
        let nstress = self.stress(if q { 40_000 } else { 400_000 }, findings)?;
        let nstress2 = self.stress_stateless(if q { 40_000 } else { 400_000 }, findings)?;
        ev.set("states", json!(outcomes.len().max(1)));
        ev.set("transitions", json!((n2 * 4 + n3 * 6) as u64));
        ev.set("traces_validated_against_impl", json!(n2 + n3 + schedules));
        ev.set("loom_schedules", json!(schedules));
        ev.set("loom_shapes", json!(shapes));
        ev.set("preemption_bound", json!(if q { 3 } else { 4 }));
        ev.set("interleavings", json!({"two_threads_x_two_calls": {"executions": n2, "interleavings_per_assignment": ints2}, "three_threads_x_two_calls": {"executions": n3, "interleavings_per_assignment": ints3}}));
        ev.set("pool_size_comparisons", json!(npool));
        ev.set("reopen_checks", json!(nrelock));
        ev.set("sampled_rounds", json!({"free_running_overlap_calls": nover, "argument_varying_tree_query_stress_calls": nstress, "argument_varying_stateless_stress_calls": nstress2, "first_toucher_processes": nft, "note": "sampled: real parallel overlap is not enumerated, only run; it cannot make the check fail spuriously because the oracle is bit-equality with the sequential result of the same deterministic calls"}));
        ev.set("exhaustive", json!(true));
        ev.set("evaluations", json!(n2 + n3 + schedules + npool + nrelock));
        ev.set("distinct_nontrivial", json!(n2 + n3 + shapes));
        ev.set("rule", json!("(a) loom explores every schedule with at most P preemptions (3 quick / 4 thorough) of pmtree's real batch_insert / batch_recalculate (source copied from the registry, std::sync -> loom::sync, rayon::join -> loom threads) for every (depth <= 2, start, length, empty/prefilled tree): root and all leaves must equal the sequential reference on every schedule, no deadlock; (b) baton scheduler: K real threads on one shared Arc<RLN>, exactly one runnable at a time, hand-over at API-call boundaries; all assignments of calls x all interleavings (2 threads x 2 calls over 6 (quick) / 8 (thorough) calls; thorough also 3 threads x 2 calls over 3 calls): each call must return what it returns alone, which must equal the reference; (c) the same workload in subprocesses with RAYON_NUM_THREADS in {1,2,4,16} (thorough: {1,2,3,4,5,6,8,16}): batch roots, witnesses, public values and verdicts bit-identical and equal to the references, messages of every pool size accepted under every pool size; (d) re-creating a persistent tree right after drop (10/50 times) and with the storage lock held 0/20/100 ms: state intact, time within the retry ladder's bound; states = distinct (call, result) outcomes observed under the baton scheduler"));
        for s in loom_samples {
            ev.sample(s);
        }
        ev.sample(json!({"baton": {"threads": 2, "calls": [0, 3, 4, 1], "schedule": [0, 1, 1, 0]}}));
        ev.assume("interleavings inside rayon's deques, sled and lazy_static / once_cell are not enumerable here (loom cannot instrument those crates without forking them): they are only exercised by the sampled free-running part");
        ev.assume("loom's thread limit caps the explored tree depth at 2; the preemption bound is stated above");
        Ok(())
    }
}

// ------------------------------------------------------------------------------------------
// subprocess workers
// ------------------------------------------------------------------------------------------

fn pool_requests() -> Vec<Req> {
    let d = Req::default_req();
    vec![d.clone(), Req { index: (1 << 20) - 1, secret: p() - big(1), signal: vec![], ..d.clone() }, Req { index: 1 << 19, ctx: 2, signal: vec![b'a'; 137], ..d }]
}

/// `zkv --worker pool <tier> <out>`: the fixed workload under the current RAYON_NUM_THREADS
pub fn worker_pool(tier: &str, out: &str) -> i32 {
    let thorough = tier == "thorough";
    let mut rln = match RLN::new(DEPTH, Cursor::new(json!({}).to_string())) { Ok(r) => r, Err(_) => return 3 };
    let mut roots = vec![];
    let mut ok = true;
    let mut detail = String::new();
    // batch roots at depth 20
    let mut offsets: Vec<u64> = vec![0, 1000];
    if thorough {
        offsets.push((1 << 19) - 5);
    }
    for off in offsets {
        let leaves: Vec<BigUint> = (0..300u64).map(|k| big(5_000_000 + off + k)).collect();
        if rln.set_tree(DEPTH).is_err() || rln.set_leaves_from(off as usize, Cursor::new(codec::vec_fr(&leaves))).is_err() {
            return 4;
        }
        let mut c = Cursor::new(vec![]);
        let _ = rln.get_root(&mut c);
        let mut t = IdealTree::new(DEPTH);
        for (k, v) in leaves.iter().enumerate() {
            t.set(off + k as u64, v);
        }
        if c.get_ref()[..] != codec::fr(&t.root())[..] {
            ok = false;
            detail = format!("root after a 300-leaf batch at offset {off} differs from the ideal tree");
        }
        roots.push(hex(c.get_ref()));
    }
    // witnesses
    let mut whs = vec![];
    let coords = witness_coords(1, 0, false, &[0, 19]);
    for (_, ci) in grid(&coords, 1).into_iter().step_by(20).take(5) {
        let w = rln::circuit::calculate_rln_witness(named_inputs(&ci), rln::circuit::graph_from_folder());
        let mut bytes = vec![];
        for f in &w {
            bytes.extend(codec::fr(&from_fr(f)));
        }
        let want = ref_values(&ci);
        if w.len() < 6 || from_fr(&w[1]) != want.y || from_fr(&w[2]) != want.root || from_fr(&w[3]) != want.nullifier {
            ok = false;
            detail = "witness outputs differ from the reference formulas".into();
        }
        whs.push(hex(&keccak::keccak256(&bytes)));
    }
    // messages
    let mut values = vec![];
    let mut messages = vec![];
    let mut verdicts = vec![];
    for r in pool_requests() {
        let s = match setup_tree(&mut rln, &r) { Ok(s) => s, Err(_) => return 5 };
        match prove_via(&mut rln, &r, &s, Entry::Tree, false) {
            PResult::Ok(m) if m.len() == 288 => {
                if m[128..] != codec::proof_values(&ref_values(&s.ci))[..] {
                    ok = false;
                    detail = "public values differ from the reference".into();
                }
                values.push(hex(&m[128..]));
                let mut t = m.clone();
                t[128 + 64] ^= 1;
                verdicts.push(json!([v_tree(&rln, &with_signal(&m, &r.signal)).short(), v_raw(&rln, &m).short(), v_raw(&rln, &t).short()]));
                messages.push(json!({"req": r.to_json(), "message_hex": hex(&m), "root_hex": hex(&codec::fr(&s.root))}));
            }
            other => {
                ok = false;
                detail = format!("proving failed: {:?}", other);
            }
        }
    }
    // tree histories on the persistent backend at depths 11 and 12 (more than 1024 leaves, removals, close and reopen),
    // judged against the ideal tree by the E1 machinery: leaves, leaf count, roots, proofs, empty positions
    {
        use super::tree::{run_history, Focus, TreeOp};
        let pat = |n: u64| -> Vec<u8> { (0..n).map(|k| if k % 2 == 0 { 1 } else { 2 }).collect() };
        let hs: Vec<(usize, Vec<TreeOp>)> = vec![
            (11, vec![TreeOp::Range(0, pat(1031)), TreeOp::Delete(5), TreeOp::Delete(700), TreeOp::Reopen, TreeOp::Append(1)]),
            (11, vec![TreeOp::Range(0, pat(1500)), TreeOp::Batch(0, vec![], vec![3, 4, 5, 6]), TreeOp::Reopen, TreeOp::Set(2047, 1), TreeOp::Reopen]),
            (12, vec![TreeOp::Range(100, pat(3001)), TreeOp::Reopen, TreeOp::Range(0, pat(64)), TreeOp::Batch(0, vec![], (200..260).collect())]),
        ];
        for (d, h) in hs {
            let cap = 1u64 << d;
            let mut pos: Vec<u64> = vec![0, 3, 5, 6, 7, 99, 100, 101, 199, 200, 259, 260, 699, 700, 701, 1023, 1024, 1027, 1028, 1029, 1030, 1031, 1499, 1500, 2047, 3099, 3100, 3101, cap - 1];
            pos.retain(|x| *x < cap);
            pos.sort();
            pos.dedup();
            let case = json!({"engine": "tree", "backend": "pmtree", "depth": d, "history": super::tree::hist_json(&h), "positions": pos});
            for f in [Focus::C06, Focus::C07, Focus::C08, Focus::C15] {
                for x in run_history(f, &case) {
                    // the listed defects of the persistent backend are not the subject here
                    if x.key.contains("default-valued-write-present") {
                        continue;
                    }
                    ok = false;
                    detail = format!("tree history at depth {d}: {} ({})", x.key, x.detail.chars().take(200).collect::<String>());
                }
            }
        }
    }
    let v = json!({"threads": std::env::var("RAYON_NUM_THREADS").unwrap_or_default(), "roots": roots, "witness_hashes": whs, "values": values, "verdicts": verdicts, "messages": messages, "reference_ok": ok, "reference_detail": detail});
    if std::fs::write(out, v.to_string()).is_err() {
        return 6;
    }
    0
}

/// `zkv --worker poolverify <file>...`: verifies the messages of every transcript
pub fn worker_poolverify(files: &[String]) -> i32 {
    let rln = match RLN::new(DEPTH, Cursor::new(json!({}).to_string())) { Ok(r) => r, Err(_) => return 3 };
    let mut rows = vec![];
    for f in files {
        let v: Value = match std::fs::read_to_string(f).ok().and_then(|s| serde_json::from_str(&s).ok()) { Some(v) => v, None => return 4 };
        let mut row = vec![];
        for m in v["messages"].as_array().cloned().unwrap_or_default() {
            let r = match Req::from_json(&m["req"]) { Some(r) => r, None => return 5 };
            let msg = unhex(m["message_hex"].as_str().unwrap_or(""));
            let roots = unhex(m["root_hex"].as_str().unwrap_or(""));
            row.push(json!(v_roots(&rln, &with_signal(&msg, &r.signal), &roots).accepted() && v_raw(&rln, &msg).accepted()));
        }
        rows.push(json!(row));
    }
    println!("{}", json!({"accepted": rows}));
    0
}

/// `zkv --worker firsttouch <a> <b>`: two threads whose first library calls are a and b
pub fn worker_firsttouch(a: &str, b: &str) -> i32 {
    // a message to verify, produced by a helper process beforehand, would touch the globals; instead the
    // verify thread builds its instance and proves inside the thread (its first touch is RLN::new)
    let kinds: Vec<String> = match a {
        "all-poseidon" => (1..=8).map(|n| format!("poseidon{n}")).collect(),
        "all-kinds" => ["hash", "verify", "seeded_key_gen", "poseidon1", "poseidon2", "poseidon3", "poseidon4", "poseidon5", "poseidon6", "poseidon7", "poseidon8"].iter().map(|s| s.to_string()).collect(),
        _ => vec![a.to_string(), b.to_string()],
    };
    let barrier = Arc::new(Barrier::new(kinds.len()));
    let run = |kind: String, bar: Arc<Barrier>| {
        std::thread::spawn(move || -> String {
            bar.wait();
            match kind.as_str() {
                "hash" => {
                    let mut c = Cursor::new(vec![]);
                    let _ = rln::public::hash(Cursor::new(b"abc".to_vec()), &mut c);
                    hex(c.get_ref())
                }
                "seeded_key_gen" => {
                    let (s, c) = rln::protocol::seeded_keygen(b"seed");
                    hex(&[codec::fr(&from_fr(&s)), codec::fr(&from_fr(&c))].concat())
                }
                pk if pk.starts_with("poseidon") => {
                    let n: u64 = pk[8..].parse().unwrap_or(1);
                    let inp: Vec<Fr> = (1..=n).map(|k| to_fr(&big(k))).collect();
                    // twice: the second call on this thread must agree with the first
                    let h1 = rln::hashers::poseidon_hash(&inp);
                    let h2 = rln::hashers::poseidon_hash(&inp);
                    if h1 != h2 { "differs-between-calls".to_string() } else { hex(&codec::fr(&from_fr(&h1))) }
                }
                _ => {
                    let r = Req::default_req();
                    match make_shared(&r) {
                        Ok(sh) => String::from_utf8_lossy(&do_call(&sh, 6)).to_string(),
                        Err(e) => format!("error:{e}"),
                    }
                }
            }
        })
    };
    let hs: Vec<_> = kinds.iter().map(|k| run(k.clone(), barrier.clone())).collect();
    let rs: Vec<String> = hs.into_iter().map(|h| h.join().unwrap_or_else(|_| "panic".into())).collect();
    println!("{}", json!({"results": rs}));
    0
}
