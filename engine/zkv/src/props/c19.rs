//! C19 — witness-graph operators follow circom's field semantics on every operand.
use super::*;
use crate::refmodel::field::*;
use crate::refmodel::ops::{self, Op};
use num_traits::Zero;
use rln::circuit::iden3calc::graph::{Operation, TresOperation, UnoOperation};
use ruint::aliases::U256;
use serde_json::json;

pub struct C19;

fn subj_op(op: Op) -> Operation {
    match op {
        Op::Mul => Operation::Mul, Op::Div => Operation::Div, Op::Add => Operation::Add,
        Op::Sub => Operation::Sub, Op::Pow => Operation::Pow, Op::Idiv => Operation::Idiv,
        Op::Mod => Operation::Mod, Op::Eq => Operation::Eq, Op::Neq => Operation::Neq,
        Op::Lt => Operation::Lt, Op::Gt => Operation::Gt, Op::Leq => Operation::Leq,
        Op::Geq => Operation::Geq, Op::Land => Operation::Land, Op::Lor => Operation::Lor,
        Op::Shl => Operation::Shl, Op::Shr => Operation::Shr, Op::Bor => Operation::Bor,
        Op::Band => Operation::Band, Op::Bxor => Operation::Bxor,
    }
}
fn op_by_name(s: &str) -> Op {
    *ops::ALL_OPS.iter().find(|o| format!("{:?}", o) == s).expect("operator name")
}
pub fn to_u256(b: &BigUint) -> U256 {
    U256::from_le_slice(&to_le32(b))
}
pub fn from_u256(u: &U256) -> BigUint {
    BigUint::from_bytes_le(&u.to_le_bytes::<32>())
}

/// operand class (part of the finding key; computed from the inputs only)
fn class(op: Op, a: &BigUint, b: &BigUint) -> String {
    match op {
        Op::Shl | Op::Shr => {
            let c = ops::shift_class(b);
            if c == "count-lt-254" && op == Op::Shl {
                let n = b.iter_u64_digits().next().unwrap_or(0) as u32;
                if (a << n) >= pow2(254) { return "count-lt-254.overflows-254-bits".into(); }
                if (a << n) >= *p() { return "count-lt-254.result-ge-p".into(); }
            }
            c.into()
        }
        Op::Div | Op::Idiv | Op::Mod if b.is_zero() => "by-zero".into(),
        Op::Bor if (a | b) >= *p() => "raw-result-ge-p".into(),
        Op::Bxor if (a ^ b) >= *p() => "raw-result-ge-p".into(),
        Op::Pow => "pow".into(),
        _ => "general".into(),
    }
}

impl C19 {
    fn duo(&self, op: Op, a: &BigUint, b: &BigUint, out: &mut Vec<Discrepancy>) {
        let want = ops::eval(op, a, b);
        let case = json!({"kind": "duo", "op": format!("{:?}", op), "a": sdec(a), "b": sdec(b)});
        let cls = class(op, a, b);
        let sop = subj_op(op);
        // Montgomery evaluator (Pow is documented as unsupported there: montgomery_form rejects it)
        let mut got_fr: Option<BigUint> = None;
        if op != Op::Pow {
            let (fa, fb) = (to_fr(a), to_fr(b));
            match guard(|| sop.eval_fr(fa, fb)) {
                Ok(v) => {
                    let g = from_fr(&v);
                    if g != want {
                        out.push(Discrepancy { key: format!("C19/eval_fr/{:?}/{}/wrong-value", op, cls), case: case.clone(),
                            detail: format!("expected {} got {}", want, g) });
                    }
                    got_fr = Some(g);
                }
                Err(m) => out.push(Discrepancy { key: format!("C19/eval_fr/{:?}/{}/panic", op, cls), case: case.clone(),
                    detail: format!("expected {} but eval_fr panicked: {}", want, m) }),
            }
        }
        // integer evaluator
        let (ua, ub) = (to_u256(a), to_u256(b));
        match guard(|| sop.eval(ua, ub)) {
            Ok(v) => {
                let g = from_u256(&v);
                if g >= *p() {
                    out.push(Discrepancy { key: format!("C19/eval/{:?}/{}/non-canonical", op, cls), case: case.clone(),
                        detail: format!("expected {} got {} (>= p)", want, g) });
                } else if g != want {
                    out.push(Discrepancy { key: format!("C19/eval/{:?}/{}/wrong-value", op, cls), case: case.clone(),
                        detail: format!("expected {} got {}", want, g) });
                }
                if let Some(f) = &got_fr {
                    if *f != g % p() && *f == want {
                        // disagreement already attributed to `eval` above
                    }
                }
            }
            Err(m) => out.push(Discrepancy { key: format!("C19/eval/{:?}/{}/panic", op, cls), case,
                detail: format!("expected {} but eval panicked: {}", want, m) }),
        }
    }
    fn uno(&self, a: &BigUint, out: &mut Vec<Discrepancy>) {
        let want = ops::neg(a);
        let case = json!({"kind": "uno", "op": "Neg", "a": sdec(a)});
        let fa = to_fr(a);
        match guard(|| UnoOperation::Neg.eval_fr(fa)) {
            Ok(v) => if from_fr(&v) != want {
                out.push(Discrepancy { key: "C19/eval_fr/Neg/general/wrong-value".into(), case: case.clone(), detail: format!("expected {} got {}", want, from_fr(&v)) });
            },
            Err(m) => out.push(Discrepancy { key: "C19/eval_fr/Neg/general/panic".into(), case: case.clone(), detail: m }),
        }
        let ua = to_u256(a);
        match guard(|| UnoOperation::Neg.eval(ua)) {
            Ok(v) => if from_u256(&v) != want {
                out.push(Discrepancy { key: "C19/eval/Neg/general/wrong-value".into(), case: case.clone(), detail: format!("expected {} got {}", want, from_u256(&v)) });
            },
            Err(m) => out.push(Discrepancy { key: "C19/eval/Neg/general/panic".into(), case: case.clone(), detail: m }),
        }
        // Id (integer evaluator only; the Montgomery one documents it as unsupported)
        match guard(|| UnoOperation::Id.eval(ua)) {
            Ok(v) => if from_u256(&v) != *a {
                out.push(Discrepancy { key: "C19/eval/Id/general/wrong-value".into(), case: case.clone(), detail: format!("got {}", from_u256(&v)) });
            },
            Err(m) => out.push(Discrepancy { key: "C19/eval/Id/general/panic".into(), case, detail: m }),
        }
    }
    fn tres(&self, c: &BigUint, a: &BigUint, b: &BigUint, out: &mut Vec<Discrepancy>) {
        let want = ops::tern(c, a, b);
        let case = json!({"kind": "tres", "op": "TernCond", "c": sdec(c), "a": sdec(a), "b": sdec(b)});
        let (fc, fa, fb) = (to_fr(c), to_fr(a), to_fr(b));
        match guard(|| TresOperation::TernCond.eval_fr(fc, fa, fb)) {
            Ok(v) => if from_fr(&v) != want {
                out.push(Discrepancy { key: "C19/eval_fr/TernCond/general/wrong-value".into(), case: case.clone(), detail: format!("expected {} got {}", want, from_fr(&v)) });
            },
            Err(m) => out.push(Discrepancy { key: "C19/eval_fr/TernCond/general/panic".into(), case: case.clone(), detail: m }),
        }
        let (uc, ua, ub) = (to_u256(c), to_u256(a), to_u256(b));
        match guard(|| TresOperation::TernCond.eval(uc, ua, ub)) {
            Ok(v) => if from_u256(&v) != want {
                out.push(Discrepancy { key: "C19/eval/TernCond/general/wrong-value".into(), case: case.clone(), detail: format!("expected {} got {}", want, from_u256(&v)) });
            },
            Err(m) => out.push(Discrepancy { key: "C19/eval/TernCond/general/panic".into(), case, detail: m }),
        }
    }
}

impl C19 {
    /// A sequence of binary-operator evaluations on ONE fresh thread: every call must return what the same call
    /// returns on its own (the reference value), whatever was evaluated before it on that thread.
    fn seq(&self, calls: &[(Op, BigUint, BigUint)]) -> Vec<Discrepancy> {
        let case = json!({"kind": "seq", "calls": calls.iter().map(|(o, a, b)| json!({"op": format!("{:?}", o), "a": sdec(a), "b": sdec(b)})).collect::<Vec<_>>()});
        let calls: Vec<(Op, BigUint, BigUint)> = calls.to_vec();
        let h = std::thread::spawn(move || {
            let mut bad: Vec<(usize, &'static str, String)> = vec![];
            for (k, (op, a, b)) in calls.iter().enumerate() {
                let want = ops::eval(*op, a, b);
                let sop = subj_op(*op);
                if *op != Op::Pow {
                    let (fa, fb) = (to_fr(a), to_fr(b));
                    match guard(|| sop.eval_fr(fa, fb)) {
                        Ok(v) => if from_fr(&v) != want { bad.push((k, "eval_fr", format!("expected {} got {}", want, from_fr(&v)))) },
                        Err(m) => bad.push((k, "eval_fr", format!("panic: {m}"))),
                    }
                }
                let (ua, ub) = (to_u256(a), to_u256(b));
                match guard(|| sop.eval(ua, ub)) {
                    Ok(v) => if from_u256(&v) != want { bad.push((k, "eval", format!("expected {} got {}", want, from_u256(&v)))) },
                    Err(m) => bad.push((k, "eval", format!("panic: {m}"))),
                }
            }
            bad
        });
        let bad = h.join().unwrap_or_default();
        let mut out = vec![];
        if let Some((k, ev, d)) = bad.first() {
            let opn = case["calls"][*k]["op"].as_str().unwrap_or("").to_string();
            out.push(Discrepancy { key: format!("C19/{ev}/{opn}/after-other-calls/wrong-value"), case: case.clone(), detail: format!("call number {k} of the sequence: {d}") });
        }
        out
    }
}

impl Prop for C19 {
    fn id(&self) -> &'static str { "C19" }
    fn level(&self) -> &'static str { "exploration" }

    fn run_case(&self, case: &Value) -> Vec<Discrepancy> {
        let mut out = vec![];
        match case["kind"].as_str().unwrap_or("") {
            "duo" => self.duo(op_by_name(case["op"].as_str().unwrap()), &bdec(&case["a"]), &bdec(&case["b"]), &mut out),
            "uno" => self.uno(&bdec(&case["a"]), &mut out),
            "tres" => self.tres(&bdec(&case["c"]), &bdec(&case["a"]), &bdec(&case["b"]), &mut out),
            "seq" => {
                let calls: Vec<(Op, BigUint, BigUint)> = case["calls"].as_array().cloned().unwrap_or_default().iter().map(|c| (op_by_name(c["op"].as_str().unwrap_or("Add")), bdec(&c["a"]), bdec(&c["b"]))).collect();
                out.extend(self.seq(&calls));
            }
            _ => {}
        }
        out
    }

    fn explore(&self, ctx: &Ctx, findings: &Findings, ev: &mut Evidence) -> Result<(), String> {
        let full = true; // the full grid (every k in 8..=254) costs ~10 s: both tiers use it, thorough adds random operands
        let mut g = ops::grid(full);
        let mut rng = SplitMix(ctx.seed);
        for _ in 0..ctx.tier.pick(4, 16) {
            g.push(rng.field());
        }
        g.sort();
        g.dedup();
        // shift counts 0..=260 and their negatives
        let mut counts: Vec<BigUint> = (0u64..=260).map(big).collect();
        for k in [1u64, 2, 63, 64, 65, 128, 253, 254, 255] {
            counts.push(p() - big(k));
        }
        let gq: Vec<BigUint> = ops::grid(false);

        // work list: (op index, a index) rows, each row sweeps all b
        let rows: Vec<(usize, usize)> = (0..ops::ALL_OPS.len()).flat_map(|o| (0..g.len()).map(move |a| (o, a))).collect();
        let res = par_map(&rows, ncpu(), |_, &(o, ai)| {
            let op = ops::ALL_OPS[o];
            let mut out = vec![];
            let mut n = 0u64;
            for b in g.iter() {
                self.duo(op, &g[ai], b, &mut out);
                n += 1;
            }
            if matches!(op, Op::Shl | Op::Shr) {
                for k in counts.iter() {
                    self.duo(op, &g[ai], k, &mut out);
                    n += 1;
                }
            }
            (n, out)
        });
        let mut evals = 0u64;
        for (n, out) in res {
            evals += n;
            findings.report_all(out);
        }
        let mut out = vec![];
        for a in g.iter() {
            self.uno(a, &mut out);
            evals += 1;
        }
        let conds = [big(0), big(1), p() - big(1)];
        for c in conds.iter() {
            for a in gq.iter() {
                for b in gq.iter() {
                    self.tres(c, a, b, &mut out);
                    evals += 1;
                }
            }
        }
        findings.report_all(out);

        // shifts whose 254-bit masked result, BEFORE the reduction by p, is a value built from p's own limbs: every limb of
        // the intermediate result in {p_i - 1, p_i, p_i + 1} (lowest limb 0 or p_0 - 1, so that it can be a shifted value);
        // the operand is that value shifted back, for every count that leaves it intact
        {
            let pl: Vec<u64> = p().iter_u64_digits().collect();
            let mut n_int = 0u64;
            let mut o2 = vec![];
            for l0 in [0u64, pl[0] - 1] {
                for d1 in [-1i64, 0, 1] {
                    for d2 in [-1i64, 0, 1] {
                        for d3 in [-1i64, 0, 1] {
                            let limbs = [l0, (pl[1] as i128 + d1 as i128) as u64, (pl[2] as i128 + d2 as i128) as u64, (pl[3] as i128 + d3 as i128) as u64];
                            let d = limbs.iter().rev().fold(big(0), |acc, l| (acc << 64usize) + big(*l));
                            if d >= pow2(254) {
                                continue;
                            }
                            for n in [1u32, 2, 8, 16, 28, 32, 63, 64] {
                                if (&d & (pow2(n) - big(1))) != big(0) {
                                    continue;
                                }
                                let a = &d >> n as usize;
                                if a >= *p() {
                                    continue;
                                }
                                self.duo(Op::Shl, &a, &big(n as u64), &mut o2);
                                // the same shift asked for as a right shift by the negative count
                                self.duo(Op::Shr, &a, &(p() - big(n as u64)), &mut o2);
                                n_int += 2;
                            }
                        }
                    }
                }
            }
            findings.report_all(o2);
            evals += n_int;
            ev.set("shifts_with_limb_pattern_intermediates", json!(n_int));
        }
        // history independence: sequences of calls on one fresh thread. Per operator every sequence of length 4 over
        // the calls {op(a,x), op(b,x), op(a,y), op(b,y)}; per ordered pair of operators every sequence of length 3
        // over {op1(a,x), op1(a,y), op2(a,x), op2(b,y)}
        let (sa, sb, sx, sy) = (dec("12345678901234567890123"), p() - big(5), big(3), pow2(130) + big(7));
        let mut seqs: Vec<Vec<(Op, BigUint, BigUint)>> = vec![];
        for op in ops::ALL_OPS.iter() {
            let calls = [(*op, sa.clone(), sx.clone()), (*op, sb.clone(), sx.clone()), (*op, sa.clone(), sy.clone()), (*op, sb.clone(), sy.clone())];
            for code in 0..256usize {
                seqs.push((0..4).map(|k| calls[(code >> (2 * k)) & 3].clone()).collect());
            }
        }
        for o1 in ops::ALL_OPS.iter() {
            for o2 in ops::ALL_OPS.iter() {
                if o1 == o2 {
                    continue;
                }
                let calls = [(*o1, sa.clone(), sx.clone()), (*o1, sa.clone(), sy.clone()), (*o2, sa.clone(), sx.clone()), (*o2, sb.clone(), sy.clone())];
                for code in 0..64usize {
                    seqs.push((0..3).map(|k| calls[(code >> (2 * k)) & 3].clone()).collect());
                }
            }
        }
        let sres = par_map(&seqs, ncpu(), |_, sq| self.seq(sq));
        let nseq = seqs.len();
        for r in sres {
            findings.report_all(r);
        }
        evals += seqs.iter().map(|s| s.len() as u64).sum::<u64>();
        ev.set("call_sequences_on_one_thread", json!(nseq));
        let nontrivial = evals; // every (operator, operand tuple) is a distinct case by construction
        ev.set("evaluations", json!(evals));
        ev.set("distinct_nontrivial", json!(nontrivial));
        ev.set("rule", json!("Cartesian product: 20 binary operators x G x G (G = boundary grid {0,1,2,2^k-1,2^k,2^k+1,(p-1)/2,(p+1)/2,p-2,p-1} + seeded randoms, deduplicated), Shl/Shr additionally x shift counts 0..260 and p-k; Neg/Id x G; TernCond x {0,1,p-1} x Gq^2. Each tuple is evaluated by eval_fr (Montgomery) and eval (integer) and compared with the BigUint reference of circom's semantics. Every tuple is distinct (grid is deduplicated), so distinct_nontrivial = evaluations. Shl (and Shr by the negative count) on operands whose masked intermediate result has every limb within 1 of the corresponding limb of p. History independence: per operator every sequence of 4 calls over {op(a,x), op(b,x), op(a,y), op(b,y)} and per ordered operator pair every sequence of 3 calls over {op1(a,x), op1(a,y), op2(a,x), op2(b,y)}, each sequence on a fresh thread, every call compared with the reference."));
        ev.set("grid_size", json!(g.len()));
        ev.set("operators", json!(22));
        ev.set("exhaustive", json!(true));
        ev.set("deviation_bound", json!("full product"));
        ev.sample(json!({"kind":"duo","op":"Shl","a": sdec(&(p() - big(1))), "b":"1"}));
        ev.sample(json!({"kind":"duo","op":"Bor","a": sdec(&(p() - big(1))), "b":"1"}));
        ev.sample(json!({"kind":"duo","op":"Lt","a": sdec(&((p() + big(1)) / big(2))), "b": sdec(&((p() - big(1)) / big(2)))}));
        ev.sample(json!({"kind":"tres","op":"TernCond","c":"0","a":"1","b":"2"}));
        ev.assume("reference semantics: circom language reference + circom runtime field library (254-bit mask, one conditional subtraction); Pow and Id are excluded from the Montgomery evaluator because montgomery_form documents them as unsupported");
        ev.assume("operands outside the grid are not covered");
        Ok(())
    }
}
