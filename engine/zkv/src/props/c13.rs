//! C13 — untrusted verification inputs are rejected without crashing, in one encoding.
use super::c02::base_requests;
use super::msg::*;
use super::rlnsub::*;
use super::*;
use crate::refmodel::codec;
use crate::refmodel::field::*;
use rln::public::RLN;
use serde_json::json;
use std::io::Cursor;

pub struct C13;

#[derive(Clone, Debug)]
pub struct Case {
    pub base: usize,
    /// "verify" | "verify_rln_proof" | "verify_with_roots" | "recover_id_secret"
    pub entry: &'static str,
    pub class: String,
    pub input: Vec<u8>,
    /// second argument: roots buffer / second message
    pub second: Vec<u8>,
    /// the only cases that may be accepted
    pub may_accept: bool,
    pub must_accept: bool,
}

fn entry_static(s: &str) -> &'static str {
    match s {
        "verify" => "verify",
        "verify_rln_proof" => "verify_rln_proof",
        "verify_with_roots" => "verify_with_roots",
        _ => "recover_id_secret",
    }
}

impl Case {
    fn to_json(&self, r: &Req) -> Value {
        json!({"base": self.base, "req": r.to_json(), "entry": self.entry, "class": self.class, "input_hex": hex(&self.input), "second_hex": hex(&self.second), "may_accept": self.may_accept, "must_accept": self.must_accept})
    }
}

fn cases_for(b: usize, r: &Req, msg: &[u8], root: &BigUint, seed: u64, thorough: bool) -> Vec<Case> {
    let mut v = vec![];
    let full = with_signal(msg, &r.signal);
    let own = codec::fr(root);
    let mut rng = SplitMix(seed ^ (b as u64) << 8 ^ 0xC13);
    let mut push = |entry: &'static str, class: &str, input: Vec<u8>, second: Vec<u8>, may: bool, must: bool| v.push(Case { base: b, entry, class: class.to_string(), input, second, may_accept: may, must_accept: must });
    // controls
    push("verify", "untouched", msg.to_vec(), vec![], true, true);
    push("verify_rln_proof", "untouched", full.clone(), vec![], true, true);
    push("verify_with_roots", "untouched", full.clone(), own.clone(), true, true);
    // every truncation
    let step = if thorough { 1 } else { 1 };
    for cut in (0..msg.len()).step_by(step) {
        push("verify", "truncated", msg[..cut].to_vec(), vec![], false, false);
        push("recover_id_secret", "truncated-first", msg[..cut].to_vec(), msg.to_vec(), true, false);
        push("recover_id_secret", "truncated-second", msg.to_vec(), msg[..cut].to_vec(), true, false);
    }
    for cut in 0..full.len() {
        if full.len() > 600 && cut > 300 && cut % 37 != 0 && cut + 3 < full.len() {
            continue; // long signals: every cut up to 300, then every 37th, then the last three
        }
        push("verify_rln_proof", "truncated", full[..cut].to_vec(), vec![], false, false);
        push("verify_with_roots", "truncated", full[..cut].to_vec(), own.clone(), false, false);
    }
    // declared signal length
    let n = r.signal.len() as u64;
    for (d, name) in [(0u64, "zero"), (n.wrapping_sub(1), "minus-1"), (n + 1, "plus-1"), (1 << 32, "2^32"), (1 << 63, "2^63"), (u64::MAX, "max"), (u64::MAX - 295, "wraps")] {
        if d == n {
            continue;
        }
        let mut x = full.clone();
        x[288..296].copy_from_slice(&d.to_le_bytes());
        push("verify_rln_proof", &format!("declared-length-{name}"), x.clone(), vec![], false, false);
        push("verify_with_roots", &format!("declared-length-{name}"), x.clone(), own.clone(), false, false);
        push("verify_with_roots", &format!("declared-length-{name}.empty-root-set"), x, vec![], false, false);
    }
    // field contents
    for k in 0..9usize {
        for (fill, name) in [(Some(0u8), "zeros"), (Some(0xffu8), "ones"), (None, "random")] {
            let chunk: Vec<u8> = match fill { Some(f) => vec![f; 32], None => rng.bytes(32) };
            if msg[32 * k..32 * k + 32] == chunk[..] {
                continue;
            }
            let mut m = msg.to_vec();
            m[32 * k..32 * k + 32].copy_from_slice(&chunk);
            let what = if k < 4 { format!("proof-chunk-{k}") } else { ["root", "ext", "x", "y", "nullifier"][k - 4].to_string() };
            let class = format!("{what}-{name}");
            push("verify", &class, m.clone(), vec![], false, false);
            push("verify_rln_proof", &class, with_signal(&m, &r.signal), vec![], false, false);
            push("verify_with_roots", &class, with_signal(&m, &r.signal), own.clone(), false, false);
            push("recover_id_secret", &class, m.clone(), msg.to_vec(), true, false);
        }
    }
    {
        let mut m = msg.to_vec();
        m[..128].copy_from_slice(&rng.bytes(128));
        push("verify", "proof-random", m.clone(), vec![], false, false);
        push("verify_rln_proof", "proof-random", with_signal(&m, &r.signal), vec![], false, false);
        let all = rng.bytes(full.len());
        push("verify_rln_proof", "all-random", all.clone(), vec![], false, false);
        push("verify_with_roots", "all-random", all, own.clone(), false, false);
        push("verify", "all-random", rng.bytes(288), vec![], false, false);
        push("recover_id_secret", "all-random", rng.bytes(288), rng.bytes(288), true, false);
    }
    // aliases v + j*p of each public value
    for k in 0..5usize {
        let val = from_le(&msg[128 + 32 * k..160 + 32 * k]);
        for j in 1..8u64 {
            let a = &val + p() * big(j);
            if a >= pow2(256) {
                break;
            }
            let mut m = msg.to_vec();
            m[128 + 32 * k..160 + 32 * k].copy_from_slice(&a.to_bytes_le().iter().cloned().chain(std::iter::repeat(0)).take(32).collect::<Vec<u8>>());
            let class = format!("alias-{}", ["root", "ext", "x", "y", "nullifier"][k]);
            push("verify", &class, m.clone(), vec![], false, false);
            push("verify_rln_proof", &class, with_signal(&m, &r.signal), vec![], false, false);
            push("verify_with_roots", &class, with_signal(&m, &r.signal), own.clone(), false, false);
            push("verify_with_roots", &format!("{class}.empty-root-set"), with_signal(&m, &r.signal), vec![], false, false);
            if k == 0 {
                // the alias of the root offered as the accepted root
                push("verify_with_roots", "alias-root.same-alias-in-root-set", with_signal(&m, &r.signal), m[128..160].to_vec(), false, false);
            }
        }
    }
    // other non-canonical encodings of the same value: the two bits above the 254-bit field size set (v + j * 2^254)
    for k in 0..5usize {
        for top in [0x40u8, 0x80, 0xC0] {
            let mut m = msg.to_vec();
            m[128 + 32 * k + 31] |= top;
            let class = format!("high-bits-{}", ["root", "ext", "x", "y", "nullifier"][k]);
            push("verify", &class, m.clone(), vec![], false, false);
            push("verify_rln_proof", &class, with_signal(&m, &r.signal), vec![], false, false);
            push("verify_with_roots", &class, with_signal(&m, &r.signal), own.clone(), false, false);
            push("verify_with_roots", &format!("{class}.empty-root-set"), with_signal(&m, &r.signal), vec![], false, false);
        }
    }
    // alias of the own root in the root set only (message untouched): the set then holds the same field element
    // -- recorded, not judged (the message itself is canonically encoded)
    // over-long inputs: must not crash; verdict recorded only
    for extra in [1usize, 8, 32] {
        let mut x = full.clone();
        x.extend(vec![0xabu8; extra]);
        push("verify_rln_proof", "trailing-bytes", x.clone(), vec![], true, false);
        push("verify_with_roots", "trailing-bytes", x, own.clone(), true, false);
        let mut m = msg.to_vec();
        m.extend(vec![0xabu8; extra]);
        push("verify", "trailing-bytes", m.clone(), vec![], true, false);
        push("recover_id_secret", "trailing-bytes", m, msg.to_vec(), true, false);
    }
    // root buffers of odd sizes
    for cut in [1usize, 31, 33, 63] {
        let mut roots = own.clone();
        roots.extend(own.clone());
        roots.truncate(cut);
        push("verify_with_roots", "root-buffer-odd-size", full.clone(), roots, true, false);
    }
    v
}

fn run(rln: &RLN, c: &Case) -> VResult {
    let rd = |b: &Vec<u8>| Cursor::new(b.clone());
    match c.entry {
        "verify" => v_raw(rln, &c.input),
        "verify_rln_proof" => v_tree(rln, &c.input),
        "verify_with_roots" => v_roots(rln, &c.input, &c.second),
        _ => match guard(|| {
            let mut o = Cursor::new(Vec::<u8>::new());
            rln.recover_id_secret(rd(&c.input), rd(&c.second), &mut o).map(|_| ())
        }) {
            Ok(Ok(())) => VResult::False,
            Ok(Err(e)) => VResult::Err(e.to_string()),
            Err(p) => VResult::Panic(p),
        },
    }
}

impl C13 {
    fn judge(&self, rln: &RLN, c: &Case, r: &Req) -> Vec<Discrepancy> {
        let res = run(rln, c);
        let mut out = vec![];
        let cls = c.class.split('.').next().unwrap_or("").to_string();
        let _ = cls;
        match &res {
            VResult::Panic(pn) => out.push(Discrepancy { key: format!("C13/{}/{}/panic", c.entry, c.class), case: c.to_json(r), detail: format!("{} panicked on untrusted input ({}): {}", c.entry, c.class, pn) }),
            VResult::True if !c.may_accept => out.push(Discrepancy { key: format!("C13/{}/{}/accepted", c.entry, c.class), case: c.to_json(r), detail: format!("{} returned true for input altered by: {}", c.entry, c.class) }),
            VResult::True => {}
            other => {
                if c.must_accept {
                    out.push(Discrepancy { key: format!("C13/{}/{}/control-rejected", c.entry, c.class), case: c.to_json(r), detail: format!("the untouched message is not accepted: {}", other.short()) });
                }
            }
        }
        out
    }
}

impl C13 {
    /// A sequence of verification calls (controls and malformed inputs mixed) on a fresh thread with an instance of its
    /// own: every call is judged exactly as it is judged alone (controls accepted, altered inputs not accepted, nothing
    /// panics) whatever was handed to the verifiers before.
    fn seq(&self, r: &Req, calls: &[Case]) -> Vec<Discrepancy> {
        let r = r.clone();
        let calls: Vec<Case> = calls.to_vec();
        std::thread::spawn(move || {
            let case = json!({"kind": "seq", "req": r.to_json(), "calls": calls.iter().map(|c| c.to_json(&r)).collect::<Vec<_>>()});
            let res = with_rln(|rln| -> Result<Option<(usize, Discrepancy)>, String> {
                setup_tree(rln, &r)?;
                for (k, c) in calls.iter().enumerate() {
                    if let Some(d) = C13.judge(rln, c, &r).into_iter().next() {
                        return Ok(Some((k, d)));
                    }
                }
                Ok(None)
            });
            match res {
                Ok(None) => vec![],
                Ok(Some((k, d))) => {
                    if d.key.ends_with("/panic") {
                        discard_rln();
                    }
                    let sym = d.key.rsplit('/').next().unwrap_or("").to_string();
                    vec![Discrepancy { key: format!("C13/{}/after-other-calls/{}", calls[k].entry, sym), case, detail: format!("call number {k} of the sequence ({}): {}", calls[k].class, d.detail) }]
                }
                Err(e) => vec![Discrepancy { key: "C13/sequence/setup-error".into(), case, detail: e }],
            }
        }).join().unwrap_or_default()
    }
}

fn case_from_json(case: &Value) -> Case {
    Case {
        base: case["base"].as_u64().unwrap_or(0) as usize,
        entry: entry_static(case["entry"].as_str().unwrap_or("")),
        class: case["class"].as_str().unwrap_or("").to_string(),
        input: unhex(case["input_hex"].as_str().unwrap_or("")),
        second: unhex(case["second_hex"].as_str().unwrap_or("")),
        may_accept: case["may_accept"].as_bool().unwrap_or(false),
        must_accept: case["must_accept"].as_bool().unwrap_or(false),
    }
}

impl Prop for C13 {
    fn id(&self) -> &'static str { "C13" }
    fn level(&self) -> &'static str { "exploration" }
    fn run_case(&self, case: &Value) -> Vec<Discrepancy> {
        let r = match Req::from_json(&case["req"]) { Some(r) => r, None => return vec![] };
        if case["kind"] == "seq" {
            let calls: Vec<Case> = case["calls"].as_array().cloned().unwrap_or_default().iter().map(case_from_json).collect();
            return self.seq(&r, &calls);
        }
        let c = Case {
            base: case["base"].as_u64().unwrap_or(0) as usize,
            entry: entry_static(case["entry"].as_str().unwrap_or("")),
            class: case["class"].as_str().unwrap_or("").to_string(),
            input: unhex(case["input_hex"].as_str().unwrap_or("")),
            second: unhex(case["second_hex"].as_str().unwrap_or("")),
            may_accept: case["may_accept"].as_bool().unwrap_or(false),
            must_accept: case["must_accept"].as_bool().unwrap_or(false),
        };
        with_rln(|rln| match setup_tree(rln, &r) {
            Ok(_) => self.judge(rln, &c, &r),
            Err(_) => vec![],
        })
    }
    fn explore(&self, ctx: &Ctx, findings: &Findings, ev: &mut Evidence) -> Result<(), String> {
        let q = ctx.tier == Tier::Quick;
        let mut bases = base_requests(true);
        // external nullifiers at the boundary of the alias domain: v* = 2^256 - 5p is the smallest value whose fifth
        // alias no longer fits 32 bytes; just below it the largest alias has its top limb (and more) all ones
        let vstar = pow2(256) - p() * big(5);
        for d in [big(1), big(1) + pow2(64), big(1) + pow2(130), big(1) + pow2(191), pow2(192)] {
            bases.push(Req { ext: &vstar - d, ..Req::default_req() });
        }
        // external nullifiers v whose alias v + p relates to p limb by limb in every possible way: v = sum d_i * 2^(64 i)
        // with d_i in {-1, 0, +1} (v > 0), so that limb i of v + p is p_i - 1, p_i or p_i + 1 (barring carries); for these
        // base messages only the controls and the aliases of the external nullifier are generated
        let n_general = bases.len();
        {
            let mut vs = vec![];
            for code in 0..81u32 {
                let d: Vec<i64> = (0..4).map(|i| ((code / 3u32.pow(i)) % 3) as i64 - 1).collect();
                let mut v = num_bigint::BigInt::from(0);
                for (i, di) in d.iter().enumerate() {
                    v += num_bigint::BigInt::from(*di) * num_bigint::BigInt::from(pow2(64 * i as u32));
                }
                if v > num_bigint::BigInt::from(0) {
                    if let Some(u) = v.to_biguint() {
                        if u < *p() {
                            vs.push(u);
                        }
                    }
                }
            }
            vs.sort();
            vs.dedup();
            for v in vs.into_iter() {
                bases.push(Req { ext: v, ..Req::default_req() });
            }
        }
        let proved = par_map(&bases, ncpu(), |_, r| {
            with_rln(|rln| {
                let s = setup_tree(rln, r)?;
                match prove_via(rln, r, &s, Entry::Tree, false) {
                    PResult::Ok(m) if m.len() == 288 => Ok((m, s.root)),
                    other => Err(format!("base request does not prove: {:?}", other)),
                }
            })
        });
        let mut all: Vec<Case> = vec![];
        for (b, pr) in proved.into_iter().enumerate() {
            let (m, root) = pr.map_err(|e| format!("base message {b}: {e}"))?;
            let mut cs = cases_for(b, &bases[b], &m, &root, ctx.seed, !q);
            if b >= n_general {
                cs.retain(|c| c.must_accept || c.class.starts_with("alias-ext"));
            }
            all.extend(cs);
        }
        // chunks of cases of the same base share one tree set-up
        let mut items: Vec<(usize, Vec<usize>)> = vec![];
        let mut cur: Vec<usize> = vec![];
        for (i, c) in all.iter().enumerate() {
            if !cur.is_empty() && (all[cur[0]].base != c.base || cur.len() >= 120) {
                items.push((all[cur[0]].base, std::mem::take(&mut cur)));
            }
            cur.push(i);
        }
        if !cur.is_empty() {
            items.push((all[cur[0]].base, cur));
        }
        let res = par_map(&items, ncpu(), |_, (b, idxs)| {
            let mut out = vec![];
            let mut k = 0;
            while k < idxs.len() {
                // a panic inside the instance discards it; set the tree up again and go on
                let r = with_rln(|rln| {
                    if setup_tree(rln, &bases[*b]).is_err() {
                        return (vec![], idxs.len());
                    }
                    let mut o = vec![];
                    let mut j = k;
                    while j < idxs.len() {
                        let d = self.judge(rln, &all[idxs[j]], &bases[*b]);
                        let panicked = d.iter().any(|x| x.key.ends_with("/panic"));
                        o.extend(d);
                        j += 1;
                        if panicked {
                            break;
                        }
                    }
                    (o, j)
                });
                out.extend(r.0);
                if r.1 < idxs.len() {
                    discard_rln();
                }
                k = r.1;
            }
            out
        });
        for r in res {
            findings.report_all(r);
        }
        // sequences on a fresh thread: one representative of each class family of the first base message (the three
        // controls first), every sequence of length <= 2 (thorough 3) that contains at least one control
        let mut reps: Vec<&Case> = vec![];
        {
            let mut seen = std::collections::BTreeSet::new();
            for c in all.iter().filter(|c| c.base == 0) {
                let fam = format!("{}/{}", c.entry, c.class.split(|ch: char| ch == '.' || ch == '-').next().unwrap_or(""));
                if c.entry != "recover_id_secret" && seen.insert(fam) {
                    reps.push(c);
                }
            }
        }
        let mut seqs: Vec<Vec<Case>> = vec![];
        for a in &reps {
            for b in &reps {
                if a.must_accept || b.must_accept {
                    seqs.push(vec![(*a).clone(), (*b).clone()]);
                }
                if !q {
                    for c in &reps {
                        if [a, b, c].iter().filter(|x| x.must_accept).count() >= 1 && (a.must_accept as u8 + b.must_accept as u8 + c.must_accept as u8) <= 2 {
                            seqs.push(vec![(*a).clone(), (*b).clone(), (*c).clone()]);
                        }
                    }
                }
            }
        }
        let sres = par_map(&seqs, ncpu(), |_, sq| self.seq(&bases[0], sq));
        for r in sres {
            findings.report_all(r);
        }
        ev.set("call_sequences_on_one_thread", json!(seqs.len()));
        ev.set("sequence_call_alphabet", json!(reps.iter().map(|c| format!("{}/{}", c.entry, c.class)).collect::<Vec<_>>()));
        let mut classes = std::collections::BTreeSet::new();
        for c in &all {
            classes.insert(format!("{}/{}", c.entry, c.class));
        }
        ev.set("evaluations", json!(all.len()));
        ev.set("distinct_nontrivial", json!(all.iter().filter(|c| !c.must_accept).count()));
        ev.set("base_messages", json!(bases.len()));
        ev.set("input_classes", json!(classes.len()));
        ev.set("exhaustive", json!(true));
        ev.set("rule", json!("for each accepted base message and each of verify, verify_rln_proof, verify_with_roots, recover_id_secret: every truncation length of the input (both arguments for recovery), declared signal length in {0, len-1, len+1, 2^32, 2^63, 2^64-1, wrapping}, each 32-byte field (4 proof chunks, 5 public values) replaced by zeros / ones / seeded random bytes, random proof part, entirely random input, every alias v + j*p < 2^256 of each of the five public values (plus base messages whose external nullifier is sum d_i 2^(64 i), d_i in {-1,0,1}, so that the alias relates to p limb by limb in every way) and every encoding with the bits above the field size set (also with an empty root set and with the same alias offered as accepted root), trailing bytes and odd-sized root buffers (must not crash, verdict recorded); everything except the untouched controls must return false or an error and nothing may panic; one representative of each (entry, class family) of the first base message forms a call alphabet, and every sequence of 2 (thorough 3) calls containing a control runs on a fresh thread and instance, each call judged as when made alone; distinct_nontrivial = cases other than the controls"));
        for c in all.iter().filter(|c| c.class.starts_with("alias") || c.class.starts_with("declared")).step_by(23).take(4) {
            ev.sample(json!({"entry": c.entry, "class": c.class, "input_len": c.input.len(), "base": bases[c.base].to_json()}));
        }
        ev.assume("Groth16 soundness for the 'not accepted' verdict on random field contents");
        Ok(())
    }
}
