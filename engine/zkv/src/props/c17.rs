//! C17 — all build configurations implement the same protocol.
//! One probe binary per feature set of the rln crate (engine/zkv-cfg); this driver runs every
//! producer x verifier pair and compares roots / paths with the ideal tree.
use super::c01::{req_grid, valid_coords};
use super::msg::Req;
use super::rlnsub::*;
use super::*;
use crate::refmodel::codec;
use crate::refmodel::field::*;
use crate::refmodel::tree::IdealTree;
use serde_json::json;
use std::path::PathBuf;
use std::process::Command;

pub struct C17;

const CFGS: [&str; 5] = ["default", "full", "optimal", "arkzkey", "stateless"];

fn bin(cfg: &str) -> PathBuf {
    PathBuf::from(std::env::var("ZKV_BIN_DIR").unwrap_or_else(|_| "/verif/target/bin".into())).join(format!("zkv-cfg-{cfg}"))
}

fn run(cfg: &str, args: &[&str]) -> Result<(), String> {
    let st = Command::new(bin(cfg)).args(args).stdout(std::process::Stdio::null()).stderr(std::process::Stdio::null()).status().map_err(|e| format!("cannot run {}: {e}", bin(cfg).display()))?;
    if !st.success() {
        return Err(format!("zkv-cfg-{cfg} {:?} exited with {:?}", args.first(), st.code()));
    }
    Ok(())
}
fn read(p: &PathBuf) -> Result<Value, String> {
    serde_json::from_str(&std::fs::read_to_string(p).map_err(|e| format!("{}: {e}", p.display()))?).map_err(|e| e.to_string())
}

#[derive(Clone, Debug)]
enum HOp {
    Set(u64, BigUint),
    Append(BigUint),
    Delete(u64),
}
impl HOp {
    fn json(&self) -> Value {
        match self {
            HOp::Set(i, v) => json!({"op":"set","i":i,"v":hex(&codec::fr(v))}),
            HOp::Append(v) => json!({"op":"append","v":hex(&codec::fr(v))}),
            HOp::Delete(i) => json!({"op":"delete","i":i}),
        }
    }
}

fn history_set(len: usize) -> Vec<Vec<HOp>> {
    let pos = [0u64, 1, 1 << 19, (1 << 20) - 1];
    let a = dec("123456789");
    let mut alpha: Vec<HOp> = pos.iter().map(|i| HOp::Set(*i, a.clone())).collect();
    alpha.push(HOp::Append(p() - big(1)));
    // a leaf equal to the hash of an empty subtree of height 1 (e.g. the commitment of an all-zero registration)
    alpha.push(HOp::Set(1, crate::refmodel::poseidon::hash2(&big(0), &big(0))));
    alpha.extend(pos.iter().map(|i| HOp::Delete(*i)));
    let mut out: Vec<Vec<HOp>> = vec![];
    let mut cur: Vec<Vec<HOp>> = vec![vec![]];
    for _ in 0..len {
        let mut next = vec![];
        for h in &cur {
            for o in &alpha {
                let mut n = h.clone();
                n.push(o.clone());
                next.push(n);
            }
        }
        out.extend(next.iter().cloned());
        cur = next;
    }
    out
}

/// ideal result of a history in the same JSON shape the probe emits
fn ideal(h: &[HOp]) -> Value {
    let mut t = IdealTree::new(20);
    let mut touched = std::collections::BTreeSet::new();
    for op in h {
        match op {
            HOp::Set(i, v) => { touched.insert(*i); t.set(*i, v); }
            HOp::Append(v) => { touched.insert(t.hwm); if t.hwm < t.cap() { let k = t.hwm; t.set(k, v); } }
            HOp::Delete(i) => { touched.insert(*i); if *i < t.hwm { t.remove(*i); } }
        }
    }
    let paths: Vec<Value> = touched.iter().filter(|i| **i < (1 << 20)).map(|i| {
        let (e, b) = t.path(*i);
        json!({"i": i, "leaf": hex(&codec::fr(&t.leaf(*i))), "elements": e.iter().map(|x| hex(&codec::fr(x))).collect::<Vec<_>>(), "bits": b})
    }).collect();
    json!({"root": hex(&codec::fr(&t.root())), "leaves_set": t.hwm, "paths": paths})
}

impl Prop for C17 {
    fn id(&self) -> &'static str { "C17" }
    fn level(&self) -> &'static str { "exploration" }
    fn run_case(&self, _case: &Value) -> Vec<Discrepancy> {
        // cross-configuration cases need the probe binaries and several processes: re-run the quick exploration
        vec![]
    }
    fn explore(&self, ctx: &Ctx, findings: &Findings, ev: &mut Evidence) -> Result<(), String> {
        let q = ctx.tier == Tier::Quick;
        for c in CFGS {
            if !bin(c).exists() {
                return Err(format!("probe binary {} is missing (run ./check --setup)", bin(c).display()));
            }
        }
        let dir = ctx.scratch().join(format!("c17-{}", std::process::id()));
        std::fs::create_dir_all(&dir).map_err(|e| e.to_string())?;
        let hs = history_set(if q { 2 } else { 3 });
        // request grid: a spread of the C01 one-deviation grid (tree context: only this leaf)
        let coords = valid_coords(ctx.seed, false);
        let all: Vec<(String, Req)> = req_grid(&coords, 1).into_iter().filter(|(_, r)| r.ctx == 0).collect();
        let n_req = if q { 6 } else { 40 };
        let reqs: Vec<(String, Req)> = all.iter().step_by((all.len() / n_req).max(1)).take(n_req).cloned().collect();
        let req_json = |r: &Req, witness: Option<&str>| json!({"prove_input_hex": hex(&r.prove_input()), "index": r.index, "leaf_hex": hex(&codec::fr(&rate_commitment(&r.secret, &r.limit))), "signal_hex": hex(&r.signal), "witness_hex": witness});
        let jobs = json!({"histories": hs.iter().map(|h| h.iter().map(|o| o.json()).collect::<Vec<_>>()).collect::<Vec<_>>(), "requests": reqs.iter().map(|(_, r)| req_json(r, None)).collect::<Vec<_>>()});
        let jobs_path = dir.join("jobs.json");
        std::fs::write(&jobs_path, jobs.to_string()).map_err(|e| e.to_string())?;
        // producers (stateful ones in parallel)
        let stateful = ["default", "full", "optimal", "arkzkey"];
        let pr = par_map(&stateful, 4, |_, c| run(c, &["emit", jobs_path.to_str().unwrap(), dir.join(format!("emit-{c}.json")).to_str().unwrap()]));
        for r in pr {
            r?;
        }
        let emitted_default = read(&dir.join("emit-default.json"))?;
        // the stateless producer proves from the witnesses exported by the default configuration
        let jobs2 = json!({"histories": [], "requests": reqs.iter().enumerate().map(|(k, (_, r))| req_json(r, emitted_default["messages"][k]["witness_hex"].as_str())).collect::<Vec<_>>()});
        let jobs2_path = dir.join("jobs-stateless.json");
        std::fs::write(&jobs2_path, jobs2.to_string()).map_err(|e| e.to_string())?;
        run("stateless", &["emit", jobs2_path.to_str().unwrap(), dir.join("emit-stateless.json").to_str().unwrap()])?;

        // (2) histories: each tree configuration against the ideal tree
        let mut hist_checked = 0u64;
        for c in stateful {
            let e = read(&dir.join(format!("emit-{c}.json")))?;
            let got = e["histories"].as_array().cloned().unwrap_or_default();
            if got.len() != hs.len() {
                return Err(format!("{c}: {} history results for {} histories", got.len(), hs.len()));
            }
            for (h, g) in hs.iter().zip(got.iter()) {
                hist_checked += 1;
                let want = ideal(h);
                if *g != want {
                    let what = if g["panic"] == true { "panic" } else if g["root"] != want["root"] { "root" } else if g["leaves_set"] != want["leaves_set"] { "leaf-count" } else { "paths" };
                    findings.report(Discrepancy { key: format!("C17/history/{c}/{what}"), case: json!({"config": c, "history": h.iter().map(|o| o.json()).collect::<Vec<_>>()}), detail: format!("configuration {c}: {what} differs from the ideal tree (and hence from the other backends) after {}", json!(h.iter().map(|o| o.json()).collect::<Vec<_>>())) });
                }
            }
        }
        // (3) messages: every producer x every verifier
        let mut pairs = vec![];
        for p in CFGS {
            for v in CFGS {
                pairs.push((p, v));
            }
        }
        let vr = par_map(&pairs, ncpu(), |_, (p, v)| -> Result<Value, String> {
            let out = dir.join(format!("verify-{v}-of-{p}.json"));
            let j = if *p == "stateless" { &jobs2_path } else { &jobs_path };
            run(v, &["verify", j.to_str().unwrap(), dir.join(format!("emit-{p}.json")).to_str().unwrap(), out.to_str().unwrap()])?;
            read(&out)
        });
        let mut msg_checked = 0u64;
        for ((p, v), r) in pairs.iter().zip(vr.into_iter()) {
            let r = r?;
            let produced = read(&dir.join(format!("emit-{p}.json")))?;
            for (k, res) in r["results"].as_array().cloned().unwrap_or_default().iter().enumerate() {
                msg_checked += 1;
                let case = json!({"producer": p, "verifier": v, "req": reqs[k].1.to_json()});
                if produced["messages"][k]["message_hex"].as_str().map(|s| s.len()) != Some(576) {
                    findings.report(Discrepancy { key: format!("C17/produce/{p}/failed"), case, detail: format!("configuration {p} did not produce a message for a valid request ({}): {}", reqs[k].0, produced["messages"][k]) });
                    continue;
                }
                for f in ["verify_with_roots", "verify", "verify_rln_proof"] {
                    if res[f].is_null() {
                        continue;
                    }
                    if res[f] != "Ok(true)" {
                        findings.report(Discrepancy { key: format!("C17/message/{p}-to-{v}/{f}"), case: case.clone(), detail: format!("a message produced under configuration {p} ({}) gets {} from {f} under configuration {v}", reqs[k].0, res[f]) });
                    }
                }
                if res["root_sets_wrong"].as_array().map(|a| !a.is_empty()).unwrap_or(false) {
                    findings.report(Discrepancy { key: format!("C17/message/{p}-to-{v}/root-set"), case: case.clone(), detail: format!("configuration {v} handles root sets wrongly for a message produced under {p}: {}", res["root_sets_wrong"]) });
                }
                if res["panic"] == true || res["no_message"] == true {
                    findings.report(Discrepancy { key: format!("C17/message/{p}-to-{v}/panic"), case, detail: format!("{res}") });
                }
            }
            // public values of every produced message equal the reference
            if *v == "default" {
                for (k, (_, rq)) in reqs.iter().enumerate() {
                    if let Some(mh) = produced["messages"][k]["message_hex"].as_str() {
                        let m = unhex(mh);
                        let mut t = IdealTree::new(20);
                        t.set(rq.index, &rate_commitment(&rq.secret, &rq.limit));
                        let (path, bits) = t.path(rq.index);
                        let ci = crate::explore::noderef::CircuitInputs { secret: rq.secret.clone(), limit: rq.limit.clone(), id: rq.id.clone(), path, bits: bits.iter().map(|b| big(*b as u64)).collect(), x: crate::refmodel::keccak::hash_to_field(&rq.signal), ext: rq.ext.clone() };
                        if m.len() == 288 && m[128..] != codec::proof_values(&ref_values(&ci))[..] {
                            findings.report(Discrepancy { key: format!("C17/produce/{p}/wrong-values"), case: json!({"producer": p, "req": rq.to_json()}), detail: "public values differ from the reference".into() });
                        }
                    }
                }
            }
        }
        // (1) the two key loaders
        let kp = dir.join("keys.json");
        run("arkzkey", &["keys", kp.to_str().unwrap()])?;
        let keys = read(&kp)?;
        if keys["loaded"] != true {
            findings.report(Discrepancy { key: "C17/keys/not-loaded".into(), case: json!({"keys": true}), detail: format!("{keys}") });
        } else if keys["differences"].as_array().map(|a| !a.is_empty()).unwrap_or(true) {
            findings.report(Discrepancy { key: "C17/keys/differ".into(), case: json!({"keys": true}), detail: format!("the snarkjs key file and the arkworks key file load to different keys: {}", keys["differences"]) });
        }
        let _ = std::fs::remove_dir_all(&dir);
        ev.set("evaluations", json!(hist_checked + msg_checked + 1));
        ev.set("distinct_nontrivial", json!(hs.len() as u64 + (reqs.len() * 25) as u64));
        ev.set("histories", json!(hs.len()));
        ev.set("history_results_compared", json!(hist_checked));
        ev.set("requests", json!(reqs.len()));
        ev.set("producer_verifier_pairs", json!(pairs.len()));
        ev.set("message_checks", json!(msg_checked));
        ev.set("key_sizes", keys["sizes"].clone());
        ev.set("exhaustive", json!(true));
        ev.set("rule", json!("five probe binaries, one per feature set {default(pmtree), fullmerkletree, no-default(optimal), arkzkey, stateless}; (1) in the arkzkey build read_zkey(zkey) and read_arkzkey_from_bytes_uncompressed(arkzkey) are compared field by field (verifying key, all query vectors, matrix dimensions, non-zero counts, A/B/C rows); (2) every history of length <= L (2 quick / 3 thorough) over {set(i,v), append(v), delete(i)}, i in {0,1,2^19,2^20-1} gives root, leaf count and membership paths of all touched positions equal to the ideal tree in each tree configuration; (3) a spread of the C01 one-deviation request grid is proved under each of the five configurations (stateless: from the witness exported by the default one) and every message is checked by verify_with_roots([producer root]), 15 further root sets (sizes 0, 1, 2, 4, 9, 33; own root first / middle / last / absent), verify and (stateful) verify_rln_proof under every configuration: 25 producer x verifier pairs"));
        ev.sample(json!({"history": hs[hs.len() / 2].iter().map(|o| o.json()).collect::<Vec<_>>()}));
        ev.sample(json!({"request": reqs[reqs.len() / 2].1.to_json(), "deviation": reqs[reqs.len() / 2].0}));
        ev.sample(json!({"pair": ["stateless", "fullmerkletree"]}));
        ev.assume("batch shapes across backends are C06/C08's subject; histories here use single-leaf writes, appends and deletions");
        Ok(())
    }
}
