//! C01 — every proof generated for a valid membership and message verifies.
use super::msg::*;
use super::rlnsub::*;
use super::*;
use crate::refmodel::codec;
use crate::refmodel::field::*;
use serde_json::json;

pub struct C01;

pub struct ReqCoord {
    pub name: &'static str,
    pub alts: Vec<Box<dyn Fn(&mut Req) + Send + Sync>>,
}

pub fn valid_coords(seed: u64, thorough: bool) -> Vec<ReqCoord> {
    let mut fa = fstar();
    // a few values with an all-zero / all-ones limb (every one of them in the thorough tier)
    let lp = limb_patterns(seed);
    fa.extend(lp.iter().step_by(if thorough { 1 } else { 3 }).cloned());
    let mut r = SplitMix(seed ^ 0xC01);
    for _ in 0..(if thorough { 3 } else { 1 }) {
        fa.push(r.field());
    }
    let mut coords = vec![];
    let mut alts: Vec<Box<dyn Fn(&mut Req) + Send + Sync>> = vec![Box::new(|_| {})];
    for v in fa.iter().cloned() {
        alts.push(Box::new(move |q: &mut Req| q.secret = v.clone()));
    }
    coords.push(ReqCoord { name: "secret", alts });
    let mut alts: Vec<Box<dyn Fn(&mut Req) + Send + Sync>> = vec![Box::new(|_| {})];
    for i in POS_ALPHABET {
        alts.push(Box::new(move |q: &mut Req| q.index = i));
    }
    coords.push(ReqCoord { name: "index", alts });
    let mut alts: Vec<Box<dyn Fn(&mut Req) + Send + Sync>> = vec![Box::new(|_| {})];
    for (l, i) in [(1u64, 0u64), (2, 0), (2, 1), (100, 0), (100, 99), (65535, 65534), (65536, 0), (65536, 65535)] {
        alts.push(Box::new(move |q: &mut Req| {
            q.limit = big(l);
            q.id = big(i);
        }));
    }
    coords.push(ReqCoord { name: "limit,id", alts });
    let mut alts: Vec<Box<dyn Fn(&mut Req) + Send + Sync>> = vec![Box::new(|_| {})];
    for v in fa.iter().cloned() {
        alts.push(Box::new(move |q: &mut Req| q.ext = v.clone()));
    }
    coords.push(ReqCoord { name: "ext", alts });
    let mut alts: Vec<Box<dyn Fn(&mut Req) + Send + Sync>> = vec![Box::new(|_| {})];
    for s in signal_alphabet(thorough).into_iter().skip(1) {
        alts.push(Box::new(move |q: &mut Req| q.signal = s.clone()));
    }
    coords.push(ReqCoord { name: "signal", alts });
    let mut alts: Vec<Box<dyn Fn(&mut Req) + Send + Sync>> = vec![Box::new(|_| {})];
    for c in 1..7u8 {
        alts.push(Box::new(move |q: &mut Req| q.ctx = c));
    }
    coords.push(ReqCoord { name: "tree-context", alts });
    coords
}

pub fn req_grid(coords: &[ReqCoord], k: usize) -> Vec<(String, Req)> {
    let sizes: Vec<usize> = coords.iter().map(|c| c.alts.len()).collect();
    deviations(&sizes, k)
        .into_iter()
        .map(|idx| {
            let mut r = Req::default_req();
            for (c, a) in coords.iter().zip(idx.iter()) {
                (c.alts[*a])(&mut r);
            }
            let names: Vec<&str> = coords.iter().zip(idx.iter()).filter(|(_, a)| **a != 0).map(|(c, _)| c.name).collect();
            (if names.is_empty() { "default".to_string() } else { names.join("+") }, r)
        })
        .collect()
}

impl C01 {
    pub fn one(&self, r: &Req, entry: Entry, class: &str) -> Vec<Discrepancy> {
        let case = json!({"req": r.to_json(), "entry": entry.name(), "class": class});
        let mut out = vec![];
        let res = with_rln(|rln| {
            let s = match setup_tree(rln, r) {
                Ok(s) => s,
                Err(e) => return Err(e),
            };
            let mut s = s;
            if r.ctx >= 4 {
                // contexts 4 and 5: a first proof, a batch change of the tree, then the proof that is judged
                if let PResult::Panic(pn) = prove_via(rln, r, &s, Entry::Tree, false) {
                    return Err(format!("first proof panicked: {pn}"));
                }
                mutate_after_first_proof(rln, r, &mut s)?;
            }
            let p = prove_via(rln, r, &s, entry, true);
            let v = match &p {
                PResult::Ok(m) => verify_all(rln, m, &r.signal, &s.root),
                _ => vec![],
            };
            Ok((s, p, v))
        });
        let (s, p, v) = match res {
            Ok(x) => x,
            Err(e) => {
                discard_rln();
                out.push(Discrepancy { key: format!("C01/setup/{class}/error"), case, detail: e });
                return out;
            }
        };
        let key = |sym: &str| format!("C01/{}/{}/{}", entry.name(), class, sym);
        match p {
            PResult::Panic(pn) => {
                discard_rln();
                out.push(Discrepancy { key: key("prove-panic"), case, detail: format!("proving a valid request panicked: {pn}") });
            }
            PResult::Err(e) => out.push(Discrepancy { key: key("prove-error"), case, detail: format!("proving a valid request failed: {e}") }),
            PResult::Ok(m) => {
                if m.len() != 288 {
                    out.push(Discrepancy { key: key("wrong-length"), case: case.clone(), detail: format!("message has {} bytes, expected 288", m.len()) });
                } else if m[128..] != codec::proof_values(&ref_values(&s.ci))[..] {
                    out.push(Discrepancy { key: key("wrong-values"), case: case.clone(), detail: "bytes 128..288 differ from the reference public values for this request and tree".into() });
                }
                for (name, r) in v {
                    if !r.accepted() {
                        if matches!(r, VResult::Panic(_)) {
                            discard_rln();
                        }
                        out.push(Discrepancy { key: key(&format!("not-accepted-by-{name}")), case: case.clone(), detail: format!("{name} returned {} for a message proved from a valid request", r.short()) });
                    }
                }
            }
        }
        out
    }
}

fn entry_by_name(s: &str) -> Entry {
    *ENTRIES.iter().find(|e| e.name() == s).unwrap_or(&Entry::Tree)
}

impl Prop for C01 {
    fn id(&self) -> &'static str { "C01" }
    fn level(&self) -> &'static str { "exploration" }
    fn run_case(&self, case: &Value) -> Vec<Discrepancy> {
        match Req::from_json(&case["req"]) {
            Some(r) => self.one(&r, entry_by_name(case["entry"].as_str().unwrap_or("")), case["class"].as_str().unwrap_or("replay")),
            None => vec![],
        }
    }
    fn explore(&self, ctx: &Ctx, findings: &Findings, ev: &mut Evidence) -> Result<(), String> {
        let q = ctx.tier == Tier::Quick;
        let coords = valid_coords(ctx.seed, !q);
        let mut vectors = req_grid(&coords, if q { 1 } else { 2 });
        // seeded random vectors on top of the exhaustive boundary grid
        let mut rng = SplitMix(ctx.seed ^ 0xabcdef);
        for k in 0..(if q { 4 } else { 16 }) {
            let limit = 1 + rng.next_u64() % 65536;
            let slen = (rng.next_u64() % 300) as usize;
            let r = Req { secret: rng.field(), index: rng.next_u64() % (1 << 20), limit: big(limit), id: big(rng.next_u64() % limit), ext: rng.field(), signal: rng.bytes(slen), ctx: (k % 6) as u8 };
            vectors.push(("random".into(), r));
        }
        // the default vector must prove and verify, otherwise nothing else means anything
        let d = self.one(&Req::default_req(), Entry::Tree, "default");
        if !d.is_empty() {
            findings.report_all(d);
            ev.set("evaluations", json!(1));
            ev.set("distinct_nontrivial", json!(0));
            ev.set("rule", json!("aborted: the default request does not prove and verify"));
            ev.sample(Req::default_req().to_json());
            return Ok(());
        }
        let items: Vec<(usize, Entry)> = (0..vectors.len()).flat_map(|i| ENTRIES.iter().map(move |e| (i, *e))).collect();
        let res = par_map(&items, ncpu(), |_, (i, e)| self.one(&vectors[*i].1, *e, &vectors[*i].0));
        for r in res {
            findings.report_all(r);
        }
        ev.set("evaluations", json!(items.len()));
        ev.set("request_vectors", json!(vectors.len()));
        ev.set("distinct_nontrivial", json!(vectors.len() - 1));
        ev.set("entry_points", json!(ENTRIES.iter().map(|e| e.name()).collect::<Vec<_>>()));
        ev.set("deviation_bound", json!(if q { 1 } else { 2 }));
        ev.set("exhaustive", json!(true));
        ev.set("alphabets", json!(coords.iter().map(|c| json!({"coordinate": c.name, "size": c.alts.len()})).collect::<Vec<_>>()));
        ev.set("rule", json!("every valid proving request within k deviations of the default over {secret F*, leaf index I* (both halves of the tree, first/last leaf), (limit,id) boundary pairs incl. (1,0), (65536,65535), external nullifier F*, signal (empty, 135/136/137 bytes, long), tree context (only this leaf, sibling set, 256-leaf batch first, neighbour set then deleted, proved once then two other leaves removed in one batch then proved again, proved once then a range written then proved again)} plus seeded random vectors; each vector is proved through the four entry points (tree state, caller-supplied witness, raw prove, externally computed witness vector from rln.wasm) and each message must have the reference public values and be accepted by verify_rln_proof, verify_with_roots([root]), verify_with_roots([]) and verify; distinct_nontrivial = vectors other than the default"));
        for (c, r) in vectors.iter().step_by((vectors.len() / 4).max(1)).take(4) {
            ev.sample(json!({"deviation": c, "req": r.to_json()}));
        }
        ev.assume("soundness of Groth16 and of the bundled proving key");
        ev.assume("requests outside the alphabets are not covered; prover randomness (r, s) is not controlled and proof bytes are never compared");
        Ok(())
    }
}
