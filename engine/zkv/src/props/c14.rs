//! C14 — identities satisfy the commitment relations; seeded ones are reproducible.
use super::rlnsub::*;
use super::*;
use crate::refmodel::chacha::{fr_rand, ChaCha20};
use crate::refmodel::codec;
use crate::refmodel::field::*;
use crate::refmodel::keccak::keccak256;
use crate::refmodel::poseidon;
use rln::ffi::Buffer;
use rln::protocol::{extended_keygen, extended_seeded_keygen, keygen, seeded_keygen};
use serde_json::json;
use std::collections::BTreeSet;
use std::io::Cursor;

pub struct C14;

/// reference derivation: (secret, commitment) and (trapdoor, nullifier, secret, commitment)
fn ref_seeded(seed: &[u8]) -> ((BigUint, BigUint), (BigUint, BigUint, BigUint, BigUint)) {
    let mut rng = ChaCha20::from_seed(keccak256(seed));
    let s = fr_rand(&mut rng);
    let c = poseidon::hash(&[s.clone()]);
    let mut rng = ChaCha20::from_seed(keccak256(seed));
    let t = fr_rand(&mut rng);
    let n = fr_rand(&mut rng);
    let es = poseidon::hash(&[t.clone(), n.clone()]);
    let ec = poseidon::hash(&[es.clone()]);
    ((s, c), (t, n, es, ec))
}

fn ffi_call(f: impl FnOnce(*mut Buffer) -> bool) -> Option<Vec<u8>> {
    static STALE: [u8; 5] = *b"STALE";
    let mut out = Buffer { ptr: STALE.as_ptr(), len: STALE.len() };
    if !f(&mut out as *mut Buffer) {
        return None;
    }
    if out.len == 0 {
        return Some(vec![]);
    }
    Some(unsafe { std::slice::from_raw_parts(out.ptr, out.len) }.to_vec())
}

impl C14 {
    fn seeded(&self, seed: &[u8]) -> Vec<Discrepancy> {
        let mut out = vec![];
        let case = json!({"kind":"seed","hex":hex(seed)});
        let ((rs, rc), (rt, rn, res, rec)) = ref_seeded(seed);
        let want2 = [codec::fr(&rs), codec::fr(&rc)].concat();
        let want4 = [codec::fr(&rt), codec::fr(&rn), codec::fr(&res), codec::fr(&rec)].concat();
        let r = guard(|| {
            let mut o = vec![];
            // typed entry points
            let (s, c) = seeded_keygen(seed);
            let got2 = [codec::fr(&from_fr(&s)), codec::fr(&from_fr(&c))].concat();
            if got2 != want2 {
                o.push(("seeded_keygen", "differs-from-reference"));
            }
            let (t, n, es, ec) = extended_seeded_keygen(seed);
            let got4 = [codec::fr(&from_fr(&t)), codec::fr(&from_fr(&n)), codec::fr(&from_fr(&es)), codec::fr(&from_fr(&ec))].concat();
            if got4 != want4 {
                o.push(("extended_seeded_keygen", "differs-from-reference"));
            }
            // repeated call
            if seeded_keygen(seed) != (s, c) || extended_seeded_keygen(seed) != (t, n, es, ec) {
                o.push(("seeded_keygen", "not-repeatable"));
            }
            // byte-level entry points on an RLN object, and the FFI
            with_rln(|rln| {
                let mut b = Cursor::new(Vec::<u8>::new());
                if rln.seeded_key_gen(Cursor::new(seed.to_vec()), &mut b).is_err() || b.get_ref()[..] != want2[..] {
                    o.push(("RLN::seeded_key_gen", "differs-from-reference"));
                }
                let mut b = Cursor::new(Vec::<u8>::new());
                if rln.seeded_extended_key_gen(Cursor::new(seed.to_vec()), &mut b).is_err() || b.get_ref()[..] != want4[..] {
                    o.push(("RLN::seeded_extended_key_gen", "differs-from-reference"));
                }
                let ctx = rln as *const rln::public::RLN;
                let inb = Buffer { ptr: seed.as_ptr(), len: seed.len() };
                if ffi_call(|ob| rln::ffi::seeded_key_gen(ctx, &inb as *const Buffer, ob)).as_deref() != Some(&want2[..]) {
                    o.push(("ffi::seeded_key_gen", "differs-from-reference"));
                }
                if ffi_call(|ob| rln::ffi::seeded_extended_key_gen(ctx, &inb as *const Buffer, ob)).as_deref() != Some(&want4[..]) {
                    o.push(("ffi::seeded_extended_key_gen", "differs-from-reference"));
                }
            });
            o
        });
        match r {
            Ok(o) => {
                for (entry, sym) in o {
                    out.push(Discrepancy { key: format!("C14/{entry}/{sym}"), case: case.clone(), detail: format!("seed of {} bytes: {entry} {sym} (reference secret {})", seed.len(), rs) });
                }
            }
            Err(p) => out.push(Discrepancy { key: "C14/seeded/panic".into(), case, detail: p }),
        }
        out
    }
    /// A sequence of key-generation calls on ONE fresh thread. codes: 0 keygen, 1 extended_keygen, 2/3 seeded_keygen
    /// (seed A/B), 4/5 extended_seeded_keygen (seed A/B). Seeded results must equal the reference whatever came
    /// before; unseeded results must satisfy the relations and every random component must be new: different from
    /// every other unseeded component of the sequence and from every component derivable from the two seeds.
    fn seq(&self, codes: &[u8]) -> Vec<Discrepancy> {
        let case = json!({"kind":"seq","calls":codes});
        let codes: Vec<u8> = codes.to_vec();
        let h = std::thread::spawn(move || -> Vec<(usize, &'static str, String)> {
            let sa: &[u8] = b"sequence seed A";
            let sb: &[u8] = b"sequence seed B, somewhat longer than thirty-two bytes";
            let mut bad = vec![];
            let mut known: BTreeSet<BigUint> = BTreeSet::new();
            for sd in [sa, sb] {
                let ((s, _), (t, n, es, _)) = ref_seeded(sd);
                known.extend([s, t, n, es]);
            }
            let mut fresh: BTreeSet<BigUint> = BTreeSet::new();
            for (k, c) in codes.iter().enumerate() {
                let r = guard(|| -> Vec<BigUint> {
                    match c {
                        0 => { let (s, c) = keygen(); vec![from_fr(&s), from_fr(&c)] }
                        1 => { let (t, n, es, ec) = extended_keygen(); vec![from_fr(&t), from_fr(&n), from_fr(&es), from_fr(&ec)] }
                        2 | 3 => { let (s, c) = seeded_keygen(if *c == 2 { sa } else { sb }); vec![from_fr(&s), from_fr(&c)] }
                        _ => { let (t, n, es, ec) = extended_seeded_keygen(if *c == 4 { sa } else { sb }); vec![from_fr(&t), from_fr(&n), from_fr(&es), from_fr(&ec)] }
                    }
                });
                let v = match r { Ok(v) => v, Err(p) => { bad.push((k, "panic", p)); continue; } };
                match c {
                    0 | 1 => {
                        let ok = if *c == 0 { poseidon::hash(&[v[0].clone()]) == v[1] } else { poseidon::hash(&[v[0].clone(), v[1].clone()]) == v[2] && poseidon::hash(&[v[2].clone()]) == v[3] };
                        if !ok {
                            bad.push((k, "relations", "the unseeded identity does not satisfy the commitment relations".into()));
                        }
                        let comps: Vec<BigUint> = if *c == 0 { vec![v[0].clone()] } else { vec![v[0].clone(), v[1].clone()] };
                        for x in comps {
                            if known.contains(&x) {
                                bad.push((k, "repeats-a-seeded-value", format!("the unseeded call returned {x}, a value derivable from one of the seeds used earlier")));
                            } else if !fresh.insert(x.clone()) {
                                bad.push((k, "repeats-an-earlier-value", format!("the unseeded call returned {x} a second time")));
                            }
                        }
                    }
                    _ => {
                        let sd = if *c == 2 || *c == 4 { sa } else { sb };
                        let ((s, cm), (t, n, es, ec)) = ref_seeded(sd);
                        let want = if *c <= 3 { vec![s, cm] } else { vec![t, n, es, ec] };
                        if v != want {
                            bad.push((k, "differs-from-reference", "the seeded identity differs from the reference derivation".into()));
                        }
                    }
                }
            }
            bad
        });
        let bad = h.join().unwrap_or_default();
        match bad.first() {
            Some((k, sym, d)) => vec![Discrepancy { key: format!("C14/sequence/{}/{sym}", if codes_unseeded(&case, *k) { "unseeded-call" } else { "seeded-call" }), case: case.clone(), detail: format!("call number {k} of the sequence: {d}") }],
            None => vec![],
        }
    }
    /// relations and canonical range of one unseeded identity, through every entry point
    fn unseeded(&self, which: usize) -> (Vec<Discrepancy>, Vec<Vec<u8>>) {
        let mut out = vec![];
        let case = json!({"kind":"unseeded","entry":which});
        let mut ids = vec![];
        let r = guard(|| -> (Vec<u8>, Vec<u8>) {
            match which {
                0 => {
                    let (s, c) = keygen();
                    let (t, n, es, ec) = extended_keygen();
                    ([codec::fr(&from_fr(&s)), codec::fr(&from_fr(&c))].concat(), [codec::fr(&from_fr(&t)), codec::fr(&from_fr(&n)), codec::fr(&from_fr(&es)), codec::fr(&from_fr(&ec))].concat())
                }
                1 => with_rln(|rln| {
                    let mut a = Cursor::new(Vec::<u8>::new());
                    let mut b = Cursor::new(Vec::<u8>::new());
                    let _ = rln.key_gen(&mut a);
                    let _ = rln.extended_key_gen(&mut b);
                    (a.into_inner(), b.into_inner())
                }),
                _ => with_rln(|rln| {
                    let ctx = rln as *const rln::public::RLN;
                    (ffi_call(|ob| rln::ffi::key_gen(ctx, ob)).unwrap_or_default(), ffi_call(|ob| rln::ffi::extended_key_gen(ctx, ob)).unwrap_or_default())
                }),
            }
        });
        match r {
            Err(p) => out.push(Discrepancy { key: "C14/unseeded/panic".into(), case, detail: p }),
            Ok((two, four)) => {
                let name = ["protocol", "RLN", "ffi"][which];
                let f = |b: &[u8], k: usize| from_le(&b[32 * k..32 * k + 32]);
                if two.len() != 64 || four.len() != 128 {
                    out.push(Discrepancy { key: format!("C14/{name}::key_gen/wrong-length"), case: case.clone(), detail: format!("{} and {} bytes", two.len(), four.len()) });
                } else {
                    if two.chunks(32).chain(four.chunks(32)).any(|c| from_le(c) >= *p()) {
                        out.push(Discrepancy { key: format!("C14/{name}::key_gen/non-canonical"), case: case.clone(), detail: "a component is not a canonical field element".into() });
                    }
                    if poseidon::hash(&[f(&two, 0)]) != f(&two, 1) {
                        out.push(Discrepancy { key: format!("C14/{name}::key_gen/commitment-relation"), case: case.clone(), detail: "commitment != H(secret)".into() });
                    }
                    if poseidon::hash(&[f(&four, 0), f(&four, 1)]) != f(&four, 2) || poseidon::hash(&[f(&four, 2)]) != f(&four, 3) {
                        out.push(Discrepancy { key: format!("C14/{name}::extended_key_gen/relations"), case, detail: "secret != H(trapdoor, nullifier) or commitment != H(secret)".into() });
                    }
                    ids.push(two[..32].to_vec());
                    ids.push(four[..32].to_vec());
                    ids.push(four[32..64].to_vec());
                }
            }
        }
        (out, ids)
    }
}

fn codes_unseeded(case: &Value, k: usize) -> bool {
    case["calls"][k].as_u64().map(|c| c <= 1).unwrap_or(false)
}

fn seeds(seed: u64, thorough: bool) -> Vec<Vec<u8>> {
    let mut v: Vec<Vec<u8>> = vec![b"A seed phrase example".to_vec(), (0u8..10).collect()];
    let mut rng = SplitMix(seed ^ 0xC14);
    let lens: Vec<usize> = if thorough { (0..=300).chain([1000, 4096, 65536]).collect() } else { (0..=140).chain(264..=280).chain([1000]).collect() };
    for l in lens {
        v.push(vec![0u8; l]);
        v.push(vec![0xffu8; l]);
        v.push((0..l).map(|k| (k % 256) as u8).collect());
        v.push(rng.bytes(l));
    }
    // single-byte variants of one 100-byte seed (every position) and of its length
    let base: Vec<u8> = (0..100u32).map(|k| (k * 7 % 251) as u8).collect();
    for i in 0..base.len() {
        let mut s = base.clone();
        s[i] ^= 0x40;
        v.push(s);
    }
    for extra in 1..=3 {
        let mut s = base.clone();
        s.extend(vec![0u8; extra]);
        v.push(s);
    }
    v.push(base);
    let mut seen = BTreeSet::new();
    v.retain(|s| seen.insert(s.clone()));
    v
}

impl Prop for C14 {
    fn id(&self) -> &'static str { "C14" }
    fn level(&self) -> &'static str { "exploration" }
    fn run_case(&self, case: &Value) -> Vec<Discrepancy> {
        match case["kind"].as_str().unwrap_or("") {
            "seed" => self.seeded(&unhex(case["hex"].as_str().unwrap_or(""))),
            "unseeded" => self.unseeded(case["entry"].as_u64().unwrap_or(0) as usize).0,
            "seq" => self.seq(&case["calls"].as_array().cloned().unwrap_or_default().iter().map(|x| x.as_u64().unwrap_or(0) as u8).collect::<Vec<u8>>()),
            _ => vec![],
        }
    }
    fn explore(&self, ctx: &Ctx, findings: &Findings, ev: &mut Evidence) -> Result<(), String> {
        let q = ctx.tier == Tier::Quick;
        // the reference derivation must reproduce the documented identities first
        let doc = [
            (b"A seed phrase example".to_vec(), "20df38f3f00496f19fe7c6535492543b21798ed7cb91aebe4af8012db884eda3", "1223a78a5d66043a7f9863e14507dc80720a5602b2a894923e5b5147d5a9c325"),
            ((0u8..10).collect::<Vec<u8>>(), "766ce6c7e7a01bdf5b3f257616f603918c30946fa23480f2859c597817e6716", "bf16d2b5c0d6f9d9d561e05bfca16a81b4b873bb063508fae360d8c74cef51f"),
        ];
        for (seed, s, c) in doc.iter() {
            let ((rs, rc), _) = ref_seeded(seed);
            let h = |x: &str| BigUint::parse_bytes(x.as_bytes(), 16).unwrap();
            if rs != h(s) || rc != h(c) {
                return Err("the reference seeded derivation does not reproduce the documented identities".into());
            }
        }
        let ss = seeds(ctx.seed, !q);
        // on 4 threads at once, each seed through all entry points
        let res = par_map(&ss, 4.min(ncpu()).max(4), |_, s| self.seeded(s));
        for r in res {
            findings.report_all(r);
        }
        // pairwise distinct outputs over all seeds
        let mut seen = std::collections::BTreeMap::new();
        for s in &ss {
            let ((sec, _), _) = ref_seeded(s);
            let got = guard(|| from_fr(&seeded_keygen(s).0)).unwrap_or(sec);
            if let Some(prev) = seen.insert(got, s.clone()) {
                findings.report(Discrepancy { key: "C14/seeded_keygen/collision".into(), case: json!({"kind":"seed","hex":hex(s)}), detail: format!("seeds {} and {} give the same identity", hex(&prev), hex(s)) });
            }
        }
        // a second process must derive the same identities (spread of seeds)
        let exe = crate::explore::self_exe()?;
        let spread: Vec<&Vec<u8>> = ss.iter().step_by((ss.len() / 6).max(1)).collect();
        for s in &spread {
            // the seed goes through a file: it can be longer than an argument list allows
            let sf = ctx.scratch().join(format!("c14-seed-{}.hex", std::process::id()));
            std::fs::write(&sf, hex(s)).map_err(|e| e.to_string())?;
            let o = std::process::Command::new(&exe).args(["--worker", "seeded", sf.to_str().unwrap()]).output().map_err(|e| e.to_string())?;
            let _ = std::fs::remove_file(&sf);
            let line = String::from_utf8_lossy(&o.stdout).trim().to_string();
            let ((rs, rc), _) = ref_seeded(s);
            if line != hex(&[codec::fr(&rs), codec::fr(&rc)].concat()) {
                findings.report(Discrepancy { key: "C14/seeded_keygen/other-process-differs".into(), case: json!({"kind":"seed","hex":hex(s)}), detail: format!("a fresh process printed {line}") });
            }
        }
        // unseeded identities: relations, canonical range, pairwise distinct
        // interleaved and repeated calls: the N-th answer equals the first
        for s in ss.iter().step_by((ss.len() / 5).max(1)).take(5) {
            let first = guard(|| (seeded_keygen(s), extended_seeded_keygen(s)));
            for round in 0..40 {
                let again = guard(|| { let e = extended_seeded_keygen(s); let k = seeded_keygen(s); (k, e) });
                if again != first {
                    findings.report(Discrepancy { key: "C14/seeded_keygen/not-repeatable".into(), case: json!({"kind":"seed","hex":hex(s)}), detail: format!("call number {} (simple and extended variants interleaved) differs from the first", round + 2) });
                    break;
                }
            }
        }
        // every sequence of three calls over {simple, extended} x {seed A, seed B}: each answer equals the reference
        // (state kept between calls of different variants / seeds would show here)
        {
            let pairs: Vec<(&Vec<u8>, &Vec<u8>)> = ss.iter().zip(ss.iter().skip(1)).step_by((ss.len() / 4).max(1)).take(4).collect();
            for (a, b) in pairs {
                let refs = [ref_seeded(a), ref_seeded(b)];
                for code in 0..64u32 {
                    let calls = [code & 3, (code >> 2) & 3, (code >> 4) & 3];
                    let r = guard(|| {
                        let mut bad = None;
                        for (k, c) in calls.iter().enumerate() {
                            let which = (c & 1) as usize;
                            let seed = if which == 0 { a } else { b };
                            if c & 2 == 0 {
                                let (s, cm) = seeded_keygen(seed);
                                if from_fr(&s) != refs[which].0 .0 || from_fr(&cm) != refs[which].0 .1 { bad = Some(k); break; }
                            } else {
                                let (t, n, s, cm) = extended_seeded_keygen(seed);
                                let w = &refs[which].1;
                                if from_fr(&t) != w.0 || from_fr(&n) != w.1 || from_fr(&s) != w.2 || from_fr(&cm) != w.3 { bad = Some(k); break; }
                            }
                        }
                        bad
                    });
                    if !matches!(r, Ok(None)) {
                        findings.report(Discrepancy { key: "C14/seeded_keygen/depends-on-earlier-calls".into(), case: json!({"kind":"sequence","a":hex(a),"b":hex(b),"calls":calls}), detail: format!("in the call sequence {:?} (bit 0: seed A/B, bit 1: simple/extended) an answer differs from the reference derivation of its seed", calls) });
                    }
                }
            }
        }
        let n_unseeded = if q { 1024 } else { 8192 };
        let idx: Vec<usize> = (0..n_unseeded).collect();
        let ures = par_map(&idx, 4, |_, k| self.unseeded(k % 3));
        let mut all_ids = BTreeSet::new();
        let mut total_ids = 0;
        for (o, ids) in ures {
            findings.report_all(o);
            for i in ids {
                total_ids += 1;
                if !all_ids.insert(i) {
                    findings.report(Discrepancy { key: "C14/unseeded/collision".into(), case: json!({"kind":"unseeded","entry":0}), detail: "two unseeded calls returned the same random component".into() });
                }
            }
        }
        // every sequence of up to 4 (thorough: 5) key-generation calls on one fresh thread
        let mut seqs: Vec<Vec<u8>> = vec![];
        let mut cur: Vec<Vec<u8>> = vec![vec![]];
        for _ in 0..(if q { 4 } else { 5 }) {
            let mut next = vec![];
            for h in &cur {
                for c in 0u8..6 {
                    let mut n = h.clone();
                    n.push(c);
                    next.push(n);
                }
            }
            seqs.extend(next.iter().cloned());
            cur = next;
        }
        let sres = par_map(&seqs, ncpu(), |_, sq| self.seq(sq));
        for r in sres {
            findings.report_all(r);
        }
        ev.set("call_sequences_on_one_thread", json!(seqs.len()));
        ev.set("evaluations", json!(ss.len() + spread.len() + n_unseeded + seqs.len()));
        ev.set("distinct_nontrivial", json!(ss.len()));
        ev.set("seeds", json!(ss.len()));
        ev.set("unseeded_identities", json!(n_unseeded));
        ev.set("distinct_random_components", json!(total_ids));
        ev.set("exhaustive", json!(true));
        ev.set("rule", json!("seeds: the two documented ones plus every length in the alphabet (quick: 0,1,2,10,31,32,33,135,136,137,271,272,273,1000; thorough: every length 0..300, 1000, 4096, 65536) x {zeros, ones, counter, seeded random}; each seed goes through protocol::seeded_keygen / extended_seeded_keygen, RLN::seeded_key_gen / seeded_extended_key_gen and the two FFI functions, twice, on 4 threads, and a spread of seeds through a second process; outputs must equal the independent derivation Keccak-256 -> ChaCha20 -> rejection sampling -> Poseidon relations, byte for byte; all seeds give pairwise distinct identities; unseeded identities from the three surfaces satisfy the relations, are canonical and pairwise distinct; every sequence of up to 4 (thorough 5) calls over {keygen, extended_keygen, seeded_keygen(A|B), extended_seeded_keygen(A|B)} on a fresh thread: seeded results equal the reference whatever preceded, unseeded components are new (not repeated, not derivable from A or B); distinct_nontrivial = distinct seeds"));
        ev.sample(json!({"seed_hex": hex(&ss[0])}));
        ev.sample(json!({"seed_hex": hex(&ss[5]), "len": ss[5].len()}));
        ev.sample(json!({"seed_len": ss[ss.len() - 1].len()}));
        ev.assume("own Keccak-f[1600], ChaCha20 block function, ark-ff rejection sampling and Poseidon references; they reproduce the identities documented in the repository's tests before anything is judged");
        Ok(())
    }
}

/// `zkv --worker seeded <hex>`: prints secret|commitment of the seeded identity
pub fn worker_seeded(seed_file: &str) -> i32 {
    let seed = match std::fs::read_to_string(seed_file) { Ok(h) => unhex(h.trim()), Err(_) => return 3 };
    let (s, c) = seeded_keygen(&seed);
    println!("{}", hex(&[codec::fr(&from_fr(&s)), codec::fr(&from_fr(&c))].concat()));
    0
}
