//! C10 — byte encodings round-trip and match the documented layouts.
use super::rlnsub::*;
use super::*;
use crate::explore::noderef::CircuitInputs;
use crate::refmodel::codec;
use crate::refmodel::field::*;
use rln::protocol::*;
use rln::utils::*;
use serde_json::json;
use std::io::Cursor;

pub struct C10;

fn d(key: &str, case: Value, detail: String) -> Discrepancy {
    Discrepancy { key: format!("C10/{key}"), case, detail }
}

impl C10 {
    fn field(&self, v: &BigUint, out: &mut Vec<Discrepancy>) {
        let case = json!({"kind":"fr","v":sdec(v)});
        let r = guard(|| {
            let mut o = vec![];
            let f = to_fr(v);
            let enc = fr_to_bytes_le(&f);
            if enc != codec::fr(v) {
                o.push(d("fr/encode/layout", case.clone(), format!("fr_to_bytes_le({v}) = {} expected 32-byte little-endian {}", hex(&enc), hex(&codec::fr(v)))));
            }
            let (back, n) = bytes_le_to_fr(&codec::fr(v));
            if back != f || n != 32 {
                o.push(d("fr/decode/value", case.clone(), format!("bytes_le_to_fr(le32({v})) = {} (read {n})", from_fr(&back))));
            }
            if serialize_field_element(f) != codec::fr(v) || deserialize_field_element(codec::fr(v)) != f {
                o.push(d("fr/field-element-wrappers", case.clone(), "serialize_field_element / deserialize_field_element disagree with the layout".into()));
            }
            o
        });
        match r {
            Ok(o) => out.extend(o),
            Err(p) => out.push(d("fr/panic", case, p)),
        }
    }
    fn vec_fr(&self, v: &[BigUint], out: &mut Vec<Discrepancy>) {
        let case = json!({"kind":"vec_fr","v":v.iter().map(sdec).collect::<Vec<_>>()});
        let r = guard(|| {
            let mut o = vec![];
            let frs: Vec<Fr> = v.iter().map(to_fr).collect();
            match vec_fr_to_bytes_le(&frs) {
                Ok(enc) => {
                    if enc != codec::vec_fr(v) {
                        o.push(d("vec_fr/encode/layout", case.clone(), format!("length {}: bytes differ from u64-LE count + 32-byte LE elements", v.len())));
                    }
                }
                Err(e) => o.push(d("vec_fr/encode/error", case.clone(), e.to_string())),
            }
            match bytes_le_to_vec_fr(&codec::vec_fr(v)) {
                Ok((back, n)) => {
                    if back != frs || n != 8 + 32 * v.len() {
                        o.push(d("vec_fr/decode/value", case.clone(), format!("length {}: decoded {} elements, read {n}", v.len(), back.len())));
                    }
                }
                Err(e) => o.push(d("vec_fr/decode/error", case.clone(), e.to_string())),
            }
            o
        });
        match r {
            Ok(o) => out.extend(o),
            Err(p) => out.push(d("vec_fr/panic", case, p)),
        }
    }
    fn vec_u8(&self, v: &[u8], out: &mut Vec<Discrepancy>) {
        let case = json!({"kind":"vec_u8","hex":hex(v)});
        let r = guard(|| {
            let mut o = vec![];
            match vec_u8_to_bytes_le(v) {
                Ok(enc) if enc == codec::vec_u8(v) => {}
                Ok(_) => o.push(d("vec_u8/encode/layout", case.clone(), format!("length {}", v.len()))),
                Err(e) => o.push(d("vec_u8/encode/error", case.clone(), e.to_string())),
            }
            match bytes_le_to_vec_u8(&codec::vec_u8(v)) {
                Ok((back, n)) if back == v && n == 8 + v.len() => {}
                Ok((back, n)) => o.push(d("vec_u8/decode/value", case.clone(), format!("length {}: decoded {} bytes, read {n}", v.len(), back.len()))),
                Err(e) => o.push(d("vec_u8/decode/error", case.clone(), e.to_string())),
            }
            o
        });
        match r {
            Ok(o) => out.extend(o),
            Err(p) => out.push(d("vec_u8/panic", case, p)),
        }
    }
    fn usizes(&self, v: &[u64], out: &mut Vec<Discrepancy>) {
        let case = json!({"kind":"usize","v":v});
        let r = guard(|| {
            let mut o = vec![];
            for x in v {
                if normalize_usize(*x as usize) != x.to_le_bytes() {
                    o.push(d("usize/encode/layout", case.clone(), format!("normalize_usize({x})")));
                }
            }
            match bytes_le_to_vec_usize(&codec::vec_usize(v)) {
                Ok(back) if back.iter().map(|x| *x as u64).collect::<Vec<_>>() == v => {}
                Ok(back) => o.push(d("vec_usize/decode/value", case.clone(), format!("decoded {:?}", back))),
                Err(e) => o.push(d("vec_usize/decode/error", case.clone(), e.to_string())),
            }
            o
        });
        match r {
            Ok(o) => out.extend(o),
            Err(p) => out.push(d("usize/panic", case, p)),
        }
    }
    /// A sequence of codec calls on ONE fresh thread. codes: 0 field element p-1, 1 vector of 3 elements, 2 vector of
    /// 4 097 elements, 3 a vector encoding whose count exceeds the buffer (decode refused), 4 byte vector of 257 bytes,
    /// 5 byte-vector encoding whose count exceeds the buffer, 6 the default witness (encode, decode, JSON), 7 half a
    /// witness encoding (refused), 8 vector of 9 elements, 9 empty vector. Each call is judged as when made alone.
    fn seq(&self, codes: &[u8]) -> Vec<Discrepancy> {
        let case = json!({"kind":"seq","calls":codes});
        let codes: Vec<u8> = codes.to_vec();
        let h = std::thread::spawn(move || -> Option<(usize, Discrepancy)> {
            for (k, c) in codes.iter().enumerate() {
                let mut o = vec![];
                match c {
                    0 => C10.field(&(p() - big(1)), &mut o),
                    1 => C10.vec_fr(&[big(1), p() - big(1), pow2(200)], &mut o),
                    2 => C10.vec_fr(&(0..4097u64).map(|i| big(i * 7 + 1)).collect::<Vec<_>>(), &mut o),
                    3 => {
                        let mut b = codec::vec_fr(&[big(1), big(2)]);
                        b[0] = 9;
                        if let Err(pn) = guard(|| bytes_le_to_vec_fr(&b).map(|_| ())) { o.push(d("vec_fr/malformed/panic", json!({}), pn)); }
                    }
                    4 => C10.vec_u8(&(0..257u32).map(|i| (i % 251) as u8).collect::<Vec<u8>>(), &mut o),
                    5 => {
                        let mut b = codec::vec_u8(&[1, 2, 3]);
                        b[1] = 1;
                        if let Err(pn) = guard(|| bytes_le_to_vec_u8(&b).map(|_| ())) { o.push(d("vec_u8/malformed/panic", json!({}), pn)); }
                    }
                    6 => C10.witness(&default_inputs(), false, &mut o),
                    7 => {
                        let b = witness_bytes(&default_inputs());
                        if let Err(pn) = guard(|| deserialize_witness(&b[..b.len() / 2]).map(|_| ())) { o.push(d("witness/malformed/panic", json!({}), pn)); }
                    }
                    8 => C10.vec_fr(&(0..9u64).map(|i| pow2(250) + big(i)).collect::<Vec<_>>(), &mut o),
                    _ => C10.vec_fr(&[], &mut o),
                }
                if let Some(x) = o.into_iter().next() {
                    return Some((k, x));
                }
            }
            None
        });
        match h.join().ok().flatten() {
            Some((k, x)) => {
                let tail = x.key.strip_prefix("C10/").unwrap_or(&x.key).to_string();
                vec![Discrepancy { key: format!("C10/after-other-calls/{tail}"), case, detail: format!("call number {k} of the sequence: {}", x.detail) }]
            }
            None => vec![],
        }
    }
    /// witness encodings whose two vectors have n and m entries (any n, m): the decoder may refuse them, but what it
    /// accepts must re-encode to the same bytes, directly and through the JSON codec
    fn witness_shape(&self, n: usize, m: usize, out: &mut Vec<Discrepancy>) {
        let mut ci = default_inputs();
        ci.path = (0..n as u64).map(|k| big(1000 + k)).collect();
        ci.bits = (0..m).map(|k| big((k % 2) as u64)).collect();
        let case = json!({"kind":"witness-shape","n":n,"m":m});
        let bytes = witness_bytes(&ci);
        let cls = if n == m { "equal-lengths" } else { "unequal-lengths" };
        let r = guard(|| {
            let mut o = vec![];
            if let Ok((w, _)) = deserialize_witness(&bytes) {
                match serialize_witness(&w) {
                    Ok(enc) if enc == bytes => {}
                    Ok(_) => o.push(d(&format!("witness/{cls}/re-encode-differs"), case.clone(), format!("a witness encoding with {n} path elements and {m} direction values decodes, but encoding the decoded witness gives other bytes"))),
                    Err(_) => {}
                }
                if let Ok(j) = rln_witness_to_json(&w) {
                    if let Ok(Ok(w2)) = guard(|| rln_witness_from_json(j.clone())) {
                        match serialize_witness(&w2) {
                            Ok(enc) if enc == bytes => {}
                            Ok(_) => o.push(d(&format!("witness/{cls}/json-re-encode-differs"), case.clone(), format!("{n} path elements and {m} direction values: bytes -> witness -> JSON -> witness -> bytes changes the bytes"))),
                            Err(_) => {}
                        }
                    }
                }
            }
            o
        });
        match r {
            Ok(o) => out.extend(o),
            Err(p) => out.push(d("witness/shape/panic", case, p)),
        }
    }
    /// witness encodings: layout, value decoding (through the decimal JSON export), JSON round trip, prefixes
    fn witness(&self, ci: &CircuitInputs, prefixes: bool, out: &mut Vec<Discrepancy>) {
        let case = json!({"kind":"witness","inputs":ci.to_json(),"prefixes":prefixes});
        let bytes = witness_bytes(ci);
        let r = guard(|| {
            let mut o = vec![];
            match deserialize_witness(&bytes) {
                Err(e) => o.push(d("witness/decode/error", case.clone(), format!("reference-encoded witness refused: {e}"))),
                Ok((w, n)) => {
                    if n != bytes.len() {
                        o.push(d("witness/decode/read-count", case.clone(), format!("read {n} of {}", bytes.len())));
                    }
                    match serialize_witness(&w) {
                        Ok(enc) if enc == bytes => {}
                        Ok(_) => o.push(d("witness/encode/layout", case.clone(), "serialize_witness(deserialize_witness(b)) != b for reference-encoded b".into())),
                        Err(e) => o.push(d("witness/encode/error", case.clone(), e.to_string())),
                    }
                    // decoded values, through the decimal export
                    match rln_witness_to_bigint_json(&w) {
                        Ok(j) => {
                            if j != ci.to_json() {
                                o.push(d("witness/decode/value", case.clone(), "the decoded witness (decimal JSON export) differs from the encoded values".into()));
                            }
                        }
                        Err(e) => o.push(d("witness/bigint-json/error", case.clone(), e.to_string())),
                    }
                    // JSON codec round trip
                    match rln_witness_to_json(&w) {
                        Ok(j) => match guard(|| rln_witness_from_json(j.clone())) {
                            Ok(Ok(w2)) if w2 == w => {}
                            Ok(Ok(_)) => o.push(d("witness/json/roundtrip", case.clone(), "from_json(to_json(w)) != w".into())),
                            Ok(Err(e)) => o.push(d("witness/json/error", case.clone(), e.to_string())),
                            Err(p) => o.push(d("witness/json/panic", case.clone(), p)),
                        },
                        Err(e) => o.push(d("witness/json/error", case.clone(), e.to_string())),
                    }
                    // proof values: encoder layout and decoder
                    if let Ok(v) = proof_values_from_witness(&w) {
                        let want = ref_values(ci);
                        let enc = serialize_proof_values(&v);
                        if enc != codec::proof_values(&want) {
                            o.push(d("proof_values/encode/layout", case.clone(), "bytes differ from root|ext|x|y|nullifier".into()));
                        }
                        let (back, n) = deserialize_proof_values(&codec::proof_values(&want));
                        if n != 160 || from_fr(&back.root) != want.root || from_fr(&back.external_nullifier) != want.ext || from_fr(&back.x) != want.x || from_fr(&back.y) != want.y || from_fr(&back.nullifier) != want.nullifier {
                            o.push(d("proof_values/decode/value", case.clone(), "decoded proof values differ".into()));
                        }
                    }
                }
            }
            if prefixes {
                for cut in 0..bytes.len() {
                    if let Ok(Ok(_)) = guard(|| deserialize_witness(&bytes[..cut])) {
                        o.push(d("witness/decode/accepts-missing-bytes", case.clone(), format!("a {cut}-byte prefix of a {}-byte witness decodes", bytes.len())));
                        break;
                    }
                }
                for extra in [1usize, 32] {
                    let mut b = bytes.clone();
                    b.extend(vec![0u8; extra]);
                    if let Ok(Ok(_)) = guard(|| deserialize_witness(&b)) {
                        o.push(d("witness/decode/accepts-trailing-bytes", case.clone(), format!("{extra} trailing bytes accepted")));
                    }
                }
            }
            o
        });
        match r {
            Ok(o) => out.extend(o),
            Err(p) => out.push(d("witness/panic", case, p)),
        }
    }
    fn requests(&self, out: &mut Vec<Discrepancy>) -> u64 {
        let mut n = 0;
        let fa = fstar();
        for (k, s) in fa.iter().enumerate() {
            for sig in [vec![], vec![0u8], vec![5u8; 32], vec![6u8; 64], vec![7u8; 255], vec![9u8; 256], vec![3u8; 65535], vec![4u8; 65536]] {
                for idx in [0usize, 1, (1 << 32) - 1, 1 << 32, 1 << 63] {
                    let (l, i, e) = (&fa[(k + 1) % fa.len()], &fa[(k + 2) % fa.len()], &fa[(k + 3) % fa.len()]);
                    let case = json!({"kind":"prove_input","secret":sdec(s),"index":idx,"signal_len":sig.len()});
                    let z = prepare_prove_input(to_fr(s), idx, to_fr(l), to_fr(i), to_fr(e), &sig);
                    if z != codec::prove_input(s, idx as u64, l, i, e, &sig) {
                        out.push(d("prove_input/layout", case, "prepare_prove_input differs from secret|index|limit|id|ext|len|signal".into()));
                    }
                    let pd: Vec<u8> = (0..288u32).map(|b| (b % 251) as u8).collect();
                    let z = prepare_verify_input(pd.clone(), &sig);
                    if z != codec::verify_input(&pd, &sig) {
                        out.push(d("verify_input/layout", json!({"kind":"verify_input","signal_len":sig.len()}), "prepare_verify_input differs from proof|values|len|signal".into()));
                    }
                    n += 2;
                }
            }
        }
        // identity tuples
        for (k, a) in fa.iter().enumerate() {
            let (b, c, e) = (&fa[(k + 4) % fa.len()], &fa[(k + 5) % fa.len()], &fa[(k + 6) % fa.len()]);
            let mut pair = codec::fr(a);
            pair.extend(codec::fr(b));
            let case = json!({"kind":"identity","a":sdec(a)});
            match guard(|| deserialize_identity_pair(pair.clone())) {
                Ok((x, y)) if from_fr(&x) == *a && from_fr(&y) == *b => {}
                Ok(_) => out.push(d("identity_pair/decode/value", case.clone(), "wrong values".into())),
                Err(p) => out.push(d("identity_pair/panic", case.clone(), p)),
            }
            let mut t = pair.clone();
            t.extend(codec::fr(c));
            t.extend(codec::fr(e));
            match guard(|| deserialize_identity_tuple(t.clone())) {
                Ok((x, y, z, w)) if from_fr(&x) == *a && from_fr(&y) == *b && from_fr(&z) == *c && from_fr(&w) == *e => {}
                Ok(_) => out.push(d("identity_tuple/decode/value", case.clone(), "wrong values".into())),
                Err(p) => out.push(d("identity_tuple/panic", case, p)),
            }
            n += 2;
        }
        n
    }
    /// bytes written by the RLN object
    fn api_bytes(&self, out: &mut Vec<Discrepancy>) -> u64 {
        let mut n = 0;
        let r = super::msg::Req { index: (1 << 19) + 1, ctx: 3, ..super::msg::Req::default_req() };
        let res = guard(|| {
            with_rln(|rln| -> Result<Vec<Discrepancy>, String> {
                let mut o = vec![];
                let s = super::msg::setup_tree(rln, &r)?;
                let case = json!({"kind":"api","req":r.to_json()});
                let mut b = Cursor::new(Vec::<u8>::new());
                rln.get_root(&mut b).map_err(|e| e.to_string())?;
                if b.get_ref()[..] != codec::fr(&s.root)[..] {
                    o.push(d("api/get_root/bytes", case.clone(), "get_root does not write the 32-byte LE root".into()));
                }
                let mut b = Cursor::new(Vec::<u8>::new());
                rln.get_leaf(r.index as usize, &mut b).map_err(|e| e.to_string())?;
                if b.get_ref()[..] != codec::fr(&s.model.leaf(r.index))[..] {
                    o.push(d("api/get_leaf/bytes", case.clone(), "get_leaf bytes".into()));
                }
                let mut b = Cursor::new(Vec::<u8>::new());
                rln.get_proof(r.index as usize, &mut b).map_err(|e| e.to_string())?;
                let (path, bits) = s.model.path(r.index);
                let mut want = codec::vec_fr(&path);
                want.extend(codec::vec_u8(&bits));
                if b.get_ref()[..] != want[..] {
                    o.push(d("api/get_proof/bytes", case.clone(), "get_proof bytes differ from u64 20 | 20x32 | u64 20 | 20 bytes of the ideal tree's path".into()));
                }
                let mut b = Cursor::new(Vec::<u8>::new());
                rln.get_empty_leaves_indices(&mut b).map_err(|e| e.to_string())?;
                let empties = s.model.empty_indices();
                if b.get_ref()[..] != codec::vec_usize(&empties)[..] {
                    o.push(d("api/get_empty_leaves_indices/bytes", case.clone(), format!("expected u64 count + u64 elements of {} empty positions", empties.len())));
                }
                let w = rln.get_serialized_rln_witness(Cursor::new(r.prove_input())).map_err(|e| e.to_string())?;
                if w != witness_bytes(&s.ci) {
                    o.push(d("api/get_serialized_rln_witness/bytes", case.clone(), "witness bytes differ from the reference encoding of (request, ideal-tree path)".into()));
                }
                for (name, len) in [("key_gen", 64usize), ("extended_key_gen", 128)] {
                    let mut b = Cursor::new(Vec::<u8>::new());
                    if name == "key_gen" { rln.key_gen(&mut b) } else { rln.extended_key_gen(&mut b) }.map_err(|e| e.to_string())?;
                    let bytes = b.into_inner();
                    if bytes.len() != len || bytes.chunks(32).any(|c| from_le(c) >= *p()) {
                        o.push(d(&format!("api/{name}/bytes"), case.clone(), format!("{} bytes, components must be canonical 32-byte elements", bytes.len())));
                    }
                }
                Ok(o)
            })
        });
        match res {
            Ok(Ok(o)) => out.extend(o),
            Ok(Err(e)) => out.push(d("api/error", json!({"kind":"api"}), e)),
            Err(p) => {
                discard_rln();
                out.push(d("api/panic", json!({"kind":"api"}), p))
            }
        }
        n += 7;
        n
    }
}

impl Prop for C10 {
    fn id(&self) -> &'static str { "C10" }
    fn level(&self) -> &'static str { "exploration" }
    fn run_case(&self, case: &Value) -> Vec<Discrepancy> {
        let mut out = vec![];
        match case["kind"].as_str().unwrap_or("") {
            "fr" => self.field(&bdec(&case["v"]), &mut out),
            "vec_fr" => self.vec_fr(&case["v"].as_array().map(|a| a.iter().map(bdec).collect::<Vec<_>>()).unwrap_or_default(), &mut out),
            "vec_u8" => self.vec_u8(&unhex(case["hex"].as_str().unwrap_or("")), &mut out),
            "usize" => self.usizes(&case["v"].as_array().map(|a| a.iter().filter_map(|x| x.as_u64()).collect::<Vec<_>>()).unwrap_or_default(), &mut out),
            "witness" => {
                if let Some(ci) = CircuitInputs::from_json(&case["inputs"]) {
                    self.witness(&ci, case["prefixes"].as_bool().unwrap_or(true), &mut out)
                }
            }
            "seq" => out.extend(self.seq(&case["calls"].as_array().cloned().unwrap_or_default().iter().map(|x| x.as_u64().unwrap_or(0) as u8).collect::<Vec<u8>>())),
            "witness-shape" => self.witness_shape(case["n"].as_u64().unwrap_or(20) as usize, case["m"].as_u64().unwrap_or(20) as usize, &mut out),
            "api" => {
                self.api_bytes(&mut out);
            }
            _ => {
                self.requests(&mut out);
            }
        }
        out
    }
    fn explore(&self, ctx: &Ctx, findings: &Findings, ev: &mut Evidence) -> Result<(), String> {
        let q = ctx.tier == Tier::Quick;
        let mut out = vec![];
        let mut n = 0u64;
        let mut fa = field_alphabet(ctx.seed, if q { 4 } else { 32 }, true);
        for k in [8u32, 16, 24, 248, 249, 250, 251, 252, 253] {
            fa.push(pow2(k) - big(1));
            fa.push(pow2(k));
        }
        for v in &fa {
            self.field(v, &mut out);
            n += 1;
        }
        for len in [0usize, 1, 2, 3, 20, 21, 64, 255, 256, 257, 1000, 4095, 4096, 4097, 65535, 65537] {
            for rot in 0..fa.len().min(if len > 1000 { 2 } else if q { 6 } else { fa.len() }) {
                let v: Vec<BigUint> = (0..len).map(|k| fa[(k + rot) % fa.len()].clone()).collect();
                self.vec_fr(&v, &mut out);
                n += 1;
            }
        }
        let mut rng = SplitMix(ctx.seed ^ 0xC10);
        for len in [0usize, 1, 2, 7, 8, 9, 255, 256, 257, 65536] {
            self.vec_u8(&rng.bytes(len), &mut out);
            self.vec_u8(&vec![0u8; len], &mut out);
            n += 2;
        }
        for v in [vec![], vec![0u64], vec![0, 1 << 32], vec![(1 << 32) - 1], vec![1 << 63, u64::MAX, 0, 1]] {
            self.usizes(&v, &mut out);
            n += 1;
        }
        // witnesses of the C04 grid (one deviation), prefixes for a spread of them
        let coords = witness_coords(ctx.seed, 1, false, &(0..20).collect::<Vec<_>>());
        let cases = grid(&coords, 1);
        let res = par_map(&cases, ncpu(), |k, (_, ci)| {
            let mut o = vec![];
            self.witness(ci, q && k % 16 == 0 || !q && k % 4 == 0, &mut o);
            o
        });
        n += cases.len() as u64;
        for r in res {
            out.extend(r);
        }
        // every pair of vector lengths
        for a in [0usize, 1, 2, 3, 19, 20, 21, 40] {
            for b in [0usize, 1, 2, 3, 19, 20, 21, 40] {
                self.witness_shape(a, b, &mut out);
                n += 1;
            }
        }
        // codec call sequences on a fresh thread
        let mut seqs: Vec<Vec<u8>> = vec![];
        {
            let mut cur: Vec<Vec<u8>> = vec![vec![]];
            for _ in 0..(if q { 3 } else { 4 }) {
                let mut next = vec![];
                for h in &cur {
                    for c in 0u8..10 {
                        let mut x = h.clone();
                        x.push(c);
                        next.push(x);
                    }
                }
                seqs.extend(next.iter().cloned());
                cur = next;
            }
        }
        let sres = par_map(&seqs, ncpu(), |_, sq| self.seq(sq));
        for r in sres {
            out.extend(r);
        }
        n += seqs.len() as u64;
        ev.set("call_sequences_on_one_thread", json!(seqs.len()));
        n += self.requests(&mut out);
        n += self.api_bytes(&mut out);
        findings.report_all(out);
        ev.set("evaluations", json!(n));
        ev.set("distinct_nontrivial", json!(n));
        ev.set("exhaustive", json!(true));
        ev.set("rule", json!("for every value of each encodable type over its boundary alphabet (Fr: F* + limb boundaries + byte-width boundaries 2^k-1/2^k for k in {8,16,24,248..253} + randoms; Vec<Fr> of lengths {0,1,2,3,20,21,64}; byte vectors of lengths {0,1,2,7,8,9,255,256,257,65536}; usize incl. 2^32 boundaries and 2^63; witnesses of the one-deviation grid; proving / verification requests; identity tuples): (1) zerokit's encoder output equals the independent reference encoder byte for byte, (2) zerokit's decoder applied to the reference encoding returns the value (witness values are read back through the decimal JSON export), (3) JSON witness codec round trip, (3b) witness encodings with every pair of vector lengths out of {0,1,2,3,19,20,21,40}: refused, or re-encoded to the same bytes directly and through JSON, (3c) every sequence of up to 3 (thorough 4) codec calls over 10 calls (elements, vectors of 0 / 3 / 9 / 4097 elements, byte vectors, the witness, three malformed encodings) on a fresh thread, each judged as when made alone, (4) every strict prefix and +1/+32 trailing bytes of a witness encoding are refused, (5) bytes written by RLN::get_root, get_leaf, get_proof, get_empty_leaves_indices, get_serialized_rln_witness, key_gen equal the reference encoding of the ideal-tree values; every value is a distinct case"));
        ev.sample(json!({"kind":"fr","v":"2^248"}));
        ev.sample(json!({"kind":"vec_fr","len":0}));
        ev.sample(json!({"kind":"witness","inputs":cases[cases.len() / 2].1.to_json()}));
        ev.assume("reference codec written from the layout comments in public.rs / protocol.rs");
        Ok(())
    }
}
