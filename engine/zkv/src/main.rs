//! zkv — bounded exhaustive exploration harness for vacp2p/zerokit.
//! usage: zkv <ID> [--tier quick|thorough] [--seed N] [--verif DIR] [--replay FILE]
mod explore;
mod props;
mod refmodel;

use explore::*;
use serde_json::Value;
use std::path::PathBuf;
use std::time::Instant;

fn main() {
    let args: Vec<String> = std::env::args().collect();
    if args.len() < 2 {
        eprintln!("usage: zkv <ID> [--tier quick|thorough] [--seed N] [--verif DIR] [--replay FILE]");
        std::process::exit(EXIT_MACHINERY);
    }
    let id = args[1].clone();
    if id == "--worker" {
        // subprocess worker modes (used by properties that isolate abort-prone calls)
        std::process::exit(props::worker(&args[2..]));
    }
    let mut tier = match std::env::var("VERIF_TIER").ok().as_deref() {
        Some("thorough") => Some(Tier::Thorough),
        Some("quick") => Some(Tier::Quick),
        _ => None,
    };
    let mut seed: u64 = std::env::var("VERIF_SEED").ok().and_then(|s| s.parse().ok()).unwrap_or(1);
    let mut verif = PathBuf::from("/verif");
    let mut replay: Option<PathBuf> = None;
    let mut arg_tier = Tier::Quick;
    let mut i = 2;
    while i < args.len() {
        match args[i].as_str() {
            "--tier" => { arg_tier = if args[i + 1] == "thorough" { Tier::Thorough } else { Tier::Quick }; i += 1; }
            "--seed" => { seed = args[i + 1].parse().unwrap_or(1); i += 1; }
            "--verif" => { verif = PathBuf::from(&args[i + 1]); i += 1; }
            "--replay" => { replay = Some(PathBuf::from(&args[i + 1])); i += 1; }
            other => { eprintln!("unknown argument {other}"); std::process::exit(EXIT_MACHINERY); }
        }
        i += 1;
    }
    let tier = tier.take().unwrap_or(arg_tier);
    std::env::set_var("ZKV_VERIF", &verif);
    install_panic_hook();

    // the references must reproduce their published vectors before anything is judged
    for (name, r) in [
        ("keccak", refmodel::keccak::selftest()),
        ("poseidon", refmodel::poseidon::selftest()),
        ("codec", refmodel::codec::selftest()),
        ("tree", refmodel::tree::selftest()),
    ] {
        if let Err(e) = r {
            eprintln!("machinery: reference self-test failed ({name}): {e}");
            std::process::exit(EXIT_MACHINERY);
        }
    }

    let prop = match props::lookup(&id) {
        Some(p) => p,
        None => { eprintln!("machinery: unknown property {id}"); std::process::exit(EXIT_MACHINERY); }
    };
    let ctx = Ctx { prop: id.clone(), tier, seed, verif_dir: verif, start: Instant::now() };
    let findings = match Findings::load(&ctx) {
        Ok(f) => f,
        Err(e) => { eprintln!("machinery: {e}"); std::process::exit(EXIT_MACHINERY); }
    };

    if let Some(path) = replay {
        std::process::exit(do_replay(&ctx, prop.as_ref(), &findings, &path));
    }

    // 1. re-execute the stored instance of every listed finding of this property
    let mut still = vec![];
    for k in &findings.known {
        let ds = prop.run_case(&k.instance);
        if ds.iter().any(|d| d.key == k.key) {
            still.push(k.key.clone());
        }
        // anything else the stored instance shows is judged like any other discrepancy
        findings.report_all(ds);
    }

    // 2. explore
    let mut ev = Evidence::new(prop.level());
    if let Err(e) = prop.explore(&ctx, &findings, &mut ev) {
        eprintln!("machinery: {e}");
        std::process::exit(EXIT_MACHINERY);
    }
    let code = finish(&ctx, &findings, ev, &still);
    let keys = findings.keys();
    eprintln!(
        "[zkv] {} {} seed={} wall={:.1}s discrepancy-classes={} exit={}",
        id, tier.name(), seed, ctx.start.elapsed().as_secs_f64(), keys.len(), code
    );
    std::process::exit(code);
}

fn do_replay(ctx: &Ctx, prop: &dyn props::Prop, findings: &Findings, path: &PathBuf) -> i32 {
    let txt = match std::fs::read_to_string(path) {
        Ok(t) => t,
        Err(e) => { eprintln!("machinery: cannot read {}: {e}", path.display()); return EXIT_MACHINERY; }
    };
    let v: Value = match serde_json::from_str(&txt) {
        Ok(v) => v,
        Err(e) => { eprintln!("machinery: {e}"); return EXIT_MACHINERY; }
    };
    let case = if v.get("case").is_some() { v["case"].clone() } else { v.clone() };
    let a = prop.run_case(&case);
    let b = prop.run_case(&case);
    let ka: Vec<_> = a.iter().map(|d| d.key.clone()).collect();
    let kb: Vec<_> = b.iter().map(|d| d.key.clone()).collect();
    if ka != kb {
        eprintln!("machinery: replay is not deterministic: {:?} vs {:?}", ka, kb);
        return EXIT_MACHINERY;
    }
    let mut code = EXIT_OK;
    for d in &a {
        if findings.is_known(&d.key) {
            println!("KNOWN-FINDING: property={} {} [{}]", ctx.prop, d.detail, d.key);
        } else {
            println!("VIOLATION property={} replay={}", ctx.prop, path.display());
            println!("  key={} detail={}", d.key, d.detail);
            code = EXIT_VIOLATION;
        }
    }
    if a.is_empty() {
        println!("replay: case holds (no discrepancy)");
    }
    code
}
