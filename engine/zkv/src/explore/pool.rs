//! Pool of worker subprocesses of this same binary (`zkv --worker <mode>`): one JSON request per
//! line on stdin, one JSON reply per line on stdout, answered in order. Used where in-process
//! threads do not scale (thousands of sled databases opened and closed) and to isolate aborts.
use serde_json::Value;
use std::io::{BufRead, BufReader, Write};
use std::process::{Child, ChildStdin, ChildStdout, Command, Stdio};
use std::sync::Mutex;

struct Worker {
    child: Child,
    stdin: ChildStdin,
    stdout: BufReader<ChildStdout>,
}
impl Worker {
    fn spawn(mode: &str) -> Result<Worker, String> {
        let exe = super::self_exe()?;
        let mut child = Command::new(exe)
            .args(["--worker", mode])
            .stdin(Stdio::piped())
            .stdout(Stdio::piped())
            .stderr(Stdio::null())
            .env("RAYON_NUM_THREADS", "1")
            .env("ZKV_THREADS", "1")
            .spawn()
            .map_err(|e| format!("cannot start worker: {e}"))?;
        let stdin = child.stdin.take().unwrap();
        let stdout = BufReader::new(child.stdout.take().unwrap());
        Ok(Worker { child, stdin, stdout })
    }
    fn ask(&mut self, req: &Value) -> Result<Value, String> {
        let line = req.to_string();
        self.stdin.write_all(line.as_bytes()).and_then(|_| self.stdin.write_all(b"\n")).and_then(|_| self.stdin.flush()).map_err(|e| format!("worker pipe: {e}"))?;
        let mut reply = String::new();
        let n = self.stdout.read_line(&mut reply).map_err(|e| e.to_string())?;
        if n == 0 {
            return Err("worker died".into());
        }
        serde_json::from_str(&reply).map_err(|e| format!("worker reply: {e}: {}", reply.chars().take(200).collect::<String>()))
    }
}
impl Drop for Worker {
    fn drop(&mut self) {
        let _ = self.child.kill();
        let _ = self.child.wait();
    }
}

pub struct Pool {
    mode: String,
    workers: Vec<Mutex<Option<Worker>>>,
}

impl Pool {
    pub fn new(n: usize, mode: &str) -> Pool {
        Pool { mode: mode.to_string(), workers: (0..n.max(1)).map(|_| Mutex::new(None)).collect() }
    }
    /// Sends every item to some worker; results come back in item order. A worker that dies
    /// while serving an item yields Err("worker died") for that item and is replaced.
    pub fn map(&self, items: &[Value]) -> Vec<Result<Value, String>> {
        self.map_limited(items, usize::MAX, None)
    }
    /// like `map`, with at most `max_parallel` workers busy at a time (memory-hungry items)
    /// and no new item started after `deadline` (the items left over yield Err("cap"))
    pub fn map_limited(&self, items: &[Value], max_parallel: usize, deadline: Option<std::time::Instant>) -> Vec<Result<Value, String>> {
        let next = std::sync::atomic::AtomicUsize::new(0);
        let out: Mutex<Vec<Option<Result<Value, String>>>> = Mutex::new((0..items.len()).map(|_| None).collect());
        std::thread::scope(|s| {
            for w in self.workers.iter().take(max_parallel.max(1)) {
                s.spawn(|| {
                    let mut slot = w.lock().unwrap();
                    loop {
                        let i = next.fetch_add(1, std::sync::atomic::Ordering::SeqCst);
                        if i >= items.len() {
                            break;
                        }
                        if let Some(dl) = deadline {
                            if std::time::Instant::now() > dl {
                                out.lock().unwrap()[i] = Some(Err("cap".into()));
                                continue;
                            }
                        }
                        if slot.is_none() {
                            match Worker::spawn(&self.mode) {
                                Ok(wk) => *slot = Some(wk),
                                Err(e) => {
                                    out.lock().unwrap()[i] = Some(Err(e));
                                    continue;
                                }
                            }
                        }
                        let r = slot.as_mut().unwrap().ask(&items[i]);
                        if r.is_err() {
                            *slot = None; // the worker is gone or out of step: start a new one for the next item
                        }
                        out.lock().unwrap()[i] = Some(r);
                    }
                });
            }
        });
        out.into_inner().unwrap().into_iter().map(|o| o.unwrap_or_else(|| Err("not served".into()))).collect()
    }
}

/// worker side: serve requests until stdin closes
pub fn serve(mut handle: impl FnMut(&Value) -> Value) -> i32 {
    let stdin = std::io::stdin();
    let stdout = std::io::stdout();
    for line in stdin.lock().lines() {
        let line = match line {
            Ok(l) => l,
            Err(_) => break,
        };
        if line.trim().is_empty() {
            continue;
        }
        let reply = match serde_json::from_str::<Value>(&line) {
            Ok(req) => handle(&req),
            Err(e) => serde_json::json!({"error": e.to_string()}),
        };
        let mut o = stdout.lock();
        if writeln!(o, "{}", reply).is_err() || o.flush().is_err() {
            break;
        }
    }
    0
}
