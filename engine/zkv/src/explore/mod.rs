//! Shared machinery: run context, subject guard, findings classification, evidence, parallel map.
pub mod noderef;
pub mod pool;
use serde_json::{json, Value};
use std::collections::{BTreeMap, BTreeSet};
use std::panic::{catch_unwind, AssertUnwindSafe};
use std::path::PathBuf;
use std::sync::Mutex;
use std::time::Instant;

pub const EXIT_OK: i32 = 0;
pub const EXIT_VIOLATION: i32 = 1;
pub const EXIT_MACHINERY: i32 = 2;

#[derive(Clone, Copy, PartialEq, Eq, Debug)]
pub enum Tier {
    Quick,
    Thorough,
}
impl Tier {
    pub fn name(&self) -> &'static str {
        match self {
            Tier::Quick => "quick",
            Tier::Thorough => "thorough",
        }
    }
    pub fn pick<T>(&self, q: T, t: T) -> T {
        match self {
            Tier::Quick => q,
            Tier::Thorough => t,
        }
    }
}

thread_local! {
    static LAST_PANIC: std::cell::RefCell<String> = std::cell::RefCell::new(String::new());
}

pub fn install_panic_hook() {
    std::panic::set_hook(Box::new(|info| {
        let msg = if let Some(s) = info.payload().downcast_ref::<&str>() {
            s.to_string()
        } else if let Some(s) = info.payload().downcast_ref::<String>() {
            s.clone()
        } else {
            "panic".to_string()
        };
        let loc = info.location().map(|l| format!("{}:{}", l.file(), l.line())).unwrap_or_default();
        LAST_PANIC.with(|p| *p.borrow_mut() = format!("{} @ {}", msg, loc));
        if std::env::var("ZKV_SHOW_PANICS").is_ok() {
            eprintln!("[subject panic] {} @ {}", msg, loc);
        }
    }));
}

/// Run a call into the subject; a panic becomes Err(message).
pub fn guard<T>(f: impl FnOnce() -> T) -> Result<T, String> {
    match catch_unwind(AssertUnwindSafe(f)) {
        Ok(v) => Ok(v),
        Err(_) => Err(LAST_PANIC.with(|p| p.borrow().clone())),
    }
}

/// Where a panic happened, reduced to `file:line` inside /repo (stable part of a finding detail).
pub fn panic_site(msg: &str) -> String {
    msg.rsplit(" @ ").next().unwrap_or("").to_string()
}

pub struct Ctx {
    pub prop: String,
    pub tier: Tier,
    pub seed: u64,
    pub verif_dir: PathBuf,
    pub start: Instant,
}

impl Ctx {
    pub fn scratch(&self) -> PathBuf {
        PathBuf::from(std::env::var("ZKV_SCRATCH").unwrap_or_else(|_| "/dev/shm".into()))
    }
}

#[derive(Clone, Debug)]
pub struct Discrepancy {
    pub key: String,
    pub case: Value,
    pub detail: String,
}

pub struct Known {
    pub key: String,
    pub what: String,
    pub instance: Value,
}

/// Collects discrepancies by class key; decides exit code against known_findings.json.
pub struct Findings {
    pub prop: String,
    pub known: Vec<Known>,
    by_key: Mutex<BTreeMap<String, (u64, Discrepancy)>>,
}

impl Findings {
    pub fn load(ctx: &Ctx) -> Result<Self, String> {
        let path = ctx.verif_dir.join("known_findings.json");
        let mut known = vec![];
        if path.exists() {
            let txt = std::fs::read_to_string(&path).map_err(|e| e.to_string())?;
            let v: Value = serde_json::from_str(&txt).map_err(|e| format!("known_findings.json: {e}"))?;
            for e in v["entries"].as_array().cloned().unwrap_or_default() {
                if e["status"] == "finding" && e["property"] == ctx.prop.as_str() {
                    known.push(Known {
                        key: e["key"].as_str().unwrap_or("").to_string(),
                        what: e["what"].as_str().unwrap_or("").to_string(),
                        instance: e["instance"].clone(),
                    });
                }
            }
        }
        Ok(Findings { prop: ctx.prop.clone(), known, by_key: Mutex::new(BTreeMap::new()) })
    }
    /// an empty collector (used when an engine is re-run on a single replayed case)
    pub fn empty(prop: &str) -> Self {
        Findings { prop: prop.to_string(), known: vec![], by_key: Mutex::new(BTreeMap::new()) }
    }
    pub fn is_known(&self, key: &str) -> bool {
        self.known.iter().any(|k| k.key == key)
    }
    pub fn report(&self, d: Discrepancy) {
        let mut g = self.by_key.lock().unwrap();
        let e = g.entry(d.key.clone()).or_insert_with(|| (0, d.clone()));
        e.0 += 1;
        // keep the smallest instance (shortest JSON) as the representative
        if d.case.to_string().len() < e.1.case.to_string().len() {
            e.1 = d;
        }
    }
    pub fn report_all(&self, ds: Vec<Discrepancy>) {
        for d in ds {
            self.report(d);
        }
    }
    pub fn keys(&self) -> Vec<(String, u64)> {
        self.by_key.lock().unwrap().iter().map(|(k, v)| (k.clone(), v.0)).collect()
    }
    pub fn violations(&self) -> Vec<Discrepancy> {
        self.by_key
            .lock()
            .unwrap()
            .iter()
            .filter(|(k, _)| !self.is_known(k))
            .map(|(_, v)| v.1.clone())
            .collect()
    }
    pub fn known_hits(&self) -> Vec<(String, u64)> {
        self.by_key
            .lock()
            .unwrap()
            .iter()
            .filter(|(k, _)| self.is_known(k))
            .map(|(k, v)| (k.clone(), v.0))
            .collect()
    }
}

pub fn sanitize(key: &str) -> String {
    key.chars().map(|c| if c.is_ascii_alphanumeric() || c == '-' || c == '.' { c } else { '_' }).collect()
}

/// Evidence accumulator. `coverage` is free-form but must contain the keys its level requires.
pub struct Evidence {
    pub level: &'static str,
    pub coverage: serde_json::Map<String, Value>,
    pub assumptions: Vec<String>,
    samples: Vec<Value>,
    distinct: BTreeSet<String>,
}

impl Evidence {
    pub fn new(level: &'static str) -> Self {
        Evidence { level, coverage: serde_json::Map::new(), assumptions: vec![], samples: vec![], distinct: BTreeSet::new() }
    }
    pub fn set(&mut self, k: &str, v: Value) {
        self.coverage.insert(k.to_string(), v);
    }
    pub fn add(&mut self, k: &str, n: u64) {
        let cur = self.coverage.get(k).and_then(|v| v.as_u64()).unwrap_or(0);
        self.coverage.insert(k.to_string(), json!(cur + n));
    }
    pub fn get(&self, k: &str) -> u64 {
        self.coverage.get(k).and_then(|v| v.as_u64()).unwrap_or(0)
    }
    pub fn sample(&mut self, v: Value) {
        if self.samples.len() < 12 {
            self.samples.push(v);
        }
    }
    /// count a distinct non-trivial case (by a canonical string of the case)
    pub fn nontrivial(&mut self, canon: String) {
        self.distinct.insert(canon);
    }
    pub fn assume(&mut self, s: &str) {
        self.assumptions.push(s.to_string());
    }
    pub fn write(mut self, ctx: &Ctx, violations: usize, extra_known: &[(String, u64)]) -> Result<(), String> {
        if !self.coverage.contains_key("distinct_nontrivial") {
            self.coverage.insert("distinct_nontrivial".into(), json!(self.distinct.len()));
        }
        self.coverage.insert("samples".into(), Value::Array(self.samples.clone()));
        if !extra_known.is_empty() {
            self.coverage.insert(
                "known_finding_classes_hit".into(),
                json!(extra_known.iter().map(|(k, n)| json!({"key": k, "count": n})).collect::<Vec<_>>()),
            );
        }
        let ev = json!({
            "property_id": ctx.prop,
            "tier": ctx.tier.name(),
            "seed": ctx.seed,
            "level": self.level,
            "coverage": Value::Object(self.coverage),
            "assumptions": self.assumptions,
            "wall_s": ctx.start.elapsed().as_secs_f64(),
            "violations": violations,
        });
        let dir = ctx.verif_dir.join("evidence");
        std::fs::create_dir_all(&dir).map_err(|e| e.to_string())?;
        let path = dir.join(format!("{}.json", ctx.prop));
        std::fs::write(&path, serde_json::to_string_pretty(&ev).unwrap() + "\n").map_err(|e| e.to_string())
    }
}

/// Final step shared by all properties: print KNOWN-FINDING / VIOLATION lines, write replays and
/// evidence, return the exit code.
pub fn finish(ctx: &Ctx, findings: &Findings, ev: Evidence, known_still_failing: &[String]) -> i32 {
    for k in &findings.known {
        if known_still_failing.contains(&k.key) {
            println!("KNOWN-FINDING: property={} {} [{}]", ctx.prop, k.what, k.key);
        }
    }
    let viol = findings.violations();
    let dir = ctx.verif_dir.join("replays").join(&ctx.prop);
    for d in &viol {
        let _ = std::fs::create_dir_all(&dir);
        let path = dir.join(format!("{}.json", sanitize(&d.key)));
        let body = json!({"property": ctx.prop, "key": d.key, "detail": d.detail, "case": d.case});
        let _ = std::fs::write(&path, serde_json::to_string_pretty(&body).unwrap() + "\n");
        println!("VIOLATION property={} replay={}", ctx.prop, path.display());
        println!("  key={} detail={}", d.key, d.detail);
    }
    let known_hits = findings.known_hits();
    if let Err(e) = ev.write(ctx, viol.len(), &known_hits) {
        eprintln!("machinery: cannot write evidence: {e}");
        return EXIT_MACHINERY;
    }
    if viol.is_empty() {
        EXIT_OK
    } else {
        EXIT_VIOLATION
    }
}

/// Parallel map over a case list with a bounded number of OS threads; order of results = order
/// of cases. The function must be deterministic per case.
pub fn par_map<T: Sync, R: Send>(cases: &[T], threads: usize, f: impl Fn(usize, &T) -> R + Sync) -> Vec<R> {
    let n = cases.len();
    let next = std::sync::atomic::AtomicUsize::new(0);
    let out: Mutex<Vec<Option<R>>> = Mutex::new((0..n).map(|_| None).collect());
    std::thread::scope(|s| {
        for _ in 0..threads.max(1).min(n.max(1)) {
            s.spawn(|| loop {
                let i = next.fetch_add(1, std::sync::atomic::Ordering::SeqCst);
                if i >= n {
                    break;
                }
                let r = f(i, &cases[i]);
                out.lock().unwrap()[i] = Some(r);
            });
        }
    });
    out.into_inner().unwrap().into_iter().map(|o| o.expect("worker died")).collect()
}

/// path of this binary for worker subprocesses (the check script exports it: /proc/self/exe is
/// useless once the file has been replaced by a rebuild)
pub fn self_exe() -> Result<PathBuf, String> {
    if let Ok(p) = std::env::var("ZKV_SELF") {
        if std::path::Path::new(&p).exists() {
            return Ok(PathBuf::from(p));
        }
    }
    std::env::current_exe().map_err(|e| e.to_string())
}

pub fn ncpu() -> usize {
    if let Some(n) = std::env::var("ZKV_THREADS").ok().and_then(|s| s.parse::<usize>().ok()) {
        return n.max(1);
    }
    std::thread::available_parallelism().map(|n| n.get()).unwrap_or(4).min(16)
}

pub fn hex(b: &[u8]) -> String {
    b.iter().map(|x| format!("{:02x}", x)).collect()
}
pub fn unhex(s: &str) -> Vec<u8> {
    (0..s.len() / 2).map(|i| u8::from_str_radix(&s[2 * i..2 * i + 2], 16).unwrap()).collect()
}

/// All index vectors over alphabets of the given sizes that differ from the default (index 0
/// everywhere) in at most k coordinates; ordered by number of deviations, then lexicographically.
pub fn deviations(sizes: &[usize], k: usize) -> Vec<Vec<usize>> {
    fn rec(sizes: &[usize], start: usize, left: usize, cur: &mut Vec<usize>, out: &mut Vec<Vec<usize>>) {
        if left == 0 {
            out.push(cur.clone());
            return;
        }
        for c in start..sizes.len() {
            for a in 1..sizes[c] {
                cur[c] = a;
                rec(sizes, c + 1, left - 1, cur, out);
                cur[c] = 0;
            }
        }
    }
    let mut out = vec![];
    for d in 0..=k.min(sizes.len()) {
        let mut cur = vec![0; sizes.len()];
        rec(sizes, 0, d, &mut cur, &mut out);
    }
    out
}
