//! Client for ref/witness_ref.js: the reference circom witness generator (the repository's own
//! rln.wasm run by node). One child process per client; requests are answered in order.
use num_bigint::BigUint;
use serde_json::{json, Value};
use std::io::{BufRead, BufReader, Write};
use std::process::{Child, ChildStdin, ChildStdout, Command, Stdio};

pub struct NodeRef {
    child: Child,
    stdin: ChildStdin,
    stdout: BufReader<ChildStdout>,
}

/// the 46 circuit inputs, by name
#[derive(Clone, Debug, PartialEq, Eq)]
pub struct CircuitInputs {
    pub secret: BigUint,
    pub limit: BigUint,
    pub id: BigUint,
    pub path: Vec<BigUint>,
    pub bits: Vec<BigUint>,
    pub x: BigUint,
    pub ext: BigUint,
}
impl CircuitInputs {
    pub fn to_json(&self) -> Value {
        let d = |b: &BigUint| b.to_str_radix(10);
        json!({
            "identitySecret": d(&self.secret), "userMessageLimit": d(&self.limit), "messageId": d(&self.id),
            "pathElements": self.path.iter().map(d).collect::<Vec<_>>(),
            "identityPathIndex": self.bits.iter().map(d).collect::<Vec<_>>(),
            "x": d(&self.x), "externalNullifier": d(&self.ext),
        })
    }
    pub fn from_json(v: &Value) -> Option<CircuitInputs> {
        let d = |x: &Value| BigUint::parse_bytes(x.as_str()?.as_bytes(), 10);
        Some(CircuitInputs {
            secret: d(&v["identitySecret"])?, limit: d(&v["userMessageLimit"])?, id: d(&v["messageId"])?,
            path: v["pathElements"].as_array()?.iter().filter_map(d).collect(),
            bits: v["identityPathIndex"].as_array()?.iter().filter_map(d).collect(),
            x: d(&v["x"])?, ext: d(&v["externalNullifier"])?,
        })
    }
}

fn node_binary() -> Option<String> {
    for c in ["/usr/bin/nodejs", "/usr/bin/node", "nodejs", "node"] {
        if Command::new(c).arg("--version").stdout(Stdio::null()).stderr(Stdio::null()).status().map(|s| s.success()).unwrap_or(false) {
            return Some(c.to_string());
        }
    }
    None
}

impl NodeRef {
    pub fn spawn(verif_dir: &std::path::Path) -> Result<NodeRef, String> {
        let bin = node_binary().ok_or("node is not installed: the reference witness generator cannot run")?;
        let script = verif_dir.join("ref").join("witness_ref.js");
        let mut child = Command::new(bin)
            .arg(script)
            .stdin(Stdio::piped())
            .stdout(Stdio::piped())
            .stderr(Stdio::null())
            .spawn()
            .map_err(|e| format!("cannot start node: {e}"))?;
        let stdin = child.stdin.take().unwrap();
        let mut stdout = BufReader::new(child.stdout.take().unwrap());
        let mut line = String::new();
        stdout.read_line(&mut line).map_err(|e| e.to_string())?;
        if !line.contains("ready") {
            return Err(format!("reference generator did not start: {line}"));
        }
        Ok(NodeRef { child, stdin, stdout })
    }
    /// Ok(Ok(witness)) accepted; Ok(Err(msg)) rejected by the circuit; Err = machinery failure
    pub fn witness(&mut self, inp: &CircuitInputs) -> Result<Result<Vec<BigUint>, String>, String> {
        let req = json!({"inputs": inp.to_json()}).to_string();
        self.stdin.write_all(req.as_bytes()).and_then(|_| self.stdin.write_all(b"\n")).and_then(|_| self.stdin.flush()).map_err(|e| format!("reference generator pipe: {e}"))?;
        let mut line = String::new();
        let n = self.stdout.read_line(&mut line).map_err(|e| e.to_string())?;
        if n == 0 {
            return Err("reference generator exited".into());
        }
        let v: Value = serde_json::from_str(&line).map_err(|e| format!("reference generator reply: {e}"))?;
        if v["ok"] == true {
            let hex = v["hex"].as_str().unwrap_or("");
            let bytes = crate::explore::unhex(hex);
            Ok(Ok(bytes.chunks(32).map(BigUint::from_bytes_le).collect()))
        } else {
            Ok(Err(v["error"].as_str().unwrap_or("rejected").to_string()))
        }
    }
}
impl Drop for NodeRef {
    fn drop(&mut self) {
        let _ = self.child.kill();
        let _ = self.child.wait();
    }
}
