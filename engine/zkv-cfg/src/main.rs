//! zkv-cfg — the same small program built once per feature set of the `rln` crate (C17).
//!   zkv-cfg emit <jobs.json> <out.json>    run the history set and prove the request grid
//!   zkv-cfg verify <produced.json> <out.json>   check another configuration's roots / messages
//!   zkv-cfg keys <out.json>                (arkzkey build) compare the two key loaders
use rln::public::RLN;
use rln::utils::{bytes_le_to_fr, fr_to_bytes_le};
use serde_json::{json, Value};
use std::io::Cursor;

fn hex(b: &[u8]) -> String {
    b.iter().map(|x| format!("{:02x}", x)).collect()
}
fn unhex(s: &str) -> Vec<u8> {
    (0..s.len() / 2).map(|i| u8::from_str_radix(&s[2 * i..2 * i + 2], 16).unwrap()).collect()
}
fn cfg_name() -> &'static str {
    if cfg!(feature = "cfg-stateless") { "stateless" } else if cfg!(feature = "cfg-arkzkey") { "arkzkey" } else if cfg!(feature = "cfg-full") { "fullmerkletree" } else if cfg!(feature = "cfg-default") { "default" } else { "optimal" }
}

#[cfg(not(feature = "cfg-stateless"))]
fn new_rln() -> RLN {
    RLN::new(20, Cursor::new(json!({}).to_string())).expect("RLN::new")
}
#[cfg(feature = "cfg-stateless")]
fn new_rln() -> RLN {
    RLN::new().expect("RLN::new")
}

// ---------------------------------------------------------------- histories (tree backends)
#[cfg(not(feature = "cfg-stateless"))]
fn run_history(ops: &Value) -> Value {
    use rln::poseidon_tree::PoseidonTree;
    use zerokit_utils::{ZerokitMerkleProof, ZerokitMerkleTree};
    let r = std::panic::catch_unwind(|| {
        let mut t = PoseidonTree::default(20).expect("tree");
        let mut results = vec![];
        let mut touched = std::collections::BTreeSet::new();
        for op in ops.as_array().unwrap() {
            let v = |k: &str| bytes_le_to_fr(&unhex(op[k].as_str().unwrap())).0;
            let ok = match op["op"].as_str().unwrap() {
                "set" => { touched.insert(op["i"].as_u64().unwrap()); t.set(op["i"].as_u64().unwrap() as usize, v("v")).is_ok() }
                "append" => { touched.insert(t.leaves_set() as u64); t.update_next(v("v")).is_ok() }
                "delete" => { touched.insert(op["i"].as_u64().unwrap()); t.delete(op["i"].as_u64().unwrap() as usize).is_ok() }
                _ => false,
            };
            results.push(ok);
        }
        let mut paths = vec![];
        for i in touched {
            if i < (1 << 20) {
                match t.proof(i as usize) {
                    Ok(p) => paths.push(json!({"i": i, "leaf": hex(&fr_to_bytes_le(&t.get(i as usize).unwrap())), "elements": p.get_path_elements().iter().map(|e| hex(&fr_to_bytes_le(e))).collect::<Vec<_>>(), "bits": p.get_path_index()})),
                    Err(_) => paths.push(json!({"i": i, "error": true})),
                }
            }
        }
        json!({"root": hex(&fr_to_bytes_le(&t.root())), "leaves_set": t.leaves_set(), "paths": paths})
    });
    match r {
        Ok(v) => v,
        Err(_) => json!({"panic": true}),
    }
}

// ---------------------------------------------------------------- messages
/// request: {prove_input_hex, index, leaf_hex (rate commitment), signal_hex, witness_hex?}
#[cfg(not(feature = "cfg-stateless"))]
fn produce(rln: &mut RLN, req: &Value) -> Value {
    let idx = req["index"].as_u64().unwrap() as usize;
    if rln.set_tree(20).is_err() || rln.set_leaf(idx, Cursor::new(unhex(req["leaf_hex"].as_str().unwrap()))).is_err() {
        return json!({"error": "tree setup"});
    }
    let mut root = Cursor::new(Vec::<u8>::new());
    let _ = rln.get_root(&mut root);
    let mut out = Cursor::new(Vec::<u8>::new());
    let witness = rln.get_serialized_rln_witness(Cursor::new(unhex(req["prove_input_hex"].as_str().unwrap()))).map(|w| hex(&w)).unwrap_or_default();
    match rln.generate_rln_proof(Cursor::new(unhex(req["prove_input_hex"].as_str().unwrap())), &mut out) {
        Ok(()) => json!({"message_hex": hex(out.get_ref()), "root_hex": hex(root.get_ref()), "witness_hex": witness}),
        Err(e) => json!({"error": e.to_string()}),
    }
}
#[cfg(feature = "cfg-stateless")]
fn produce(rln: &mut RLN, req: &Value) -> Value {
    // the stateless configuration proves from a caller-supplied witness
    let w = unhex(req["witness_hex"].as_str().unwrap_or(""));
    let mut out = Cursor::new(Vec::<u8>::new());
    match rln.generate_rln_proof_with_witness(Cursor::new(w), &mut out) {
        Ok(()) => json!({"message_hex": hex(out.get_ref()), "root_hex": hex(&out.get_ref()[128..160]), "witness_hex": req["witness_hex"]}),
        Err(e) => json!({"error": e.to_string()}),
    }
}

fn with_signal(msg: &[u8], signal: &[u8]) -> Vec<u8> {
    let mut v = msg.to_vec();
    v.extend_from_slice(&(signal.len() as u64).to_le_bytes());
    v.extend_from_slice(signal);
    v
}

fn check_message(rln: &mut RLN, req: &Value, prod: &Value) -> Value {
    let msg = unhex(prod["message_hex"].as_str().unwrap_or(""));
    let signal = unhex(req["signal_hex"].as_str().unwrap_or(""));
    if msg.len() != 288 {
        return json!({"no_message": true});
    }
    let input = with_signal(&msg, &signal);
    let roots = unhex(prod["root_hex"].as_str().unwrap_or(""));
    let r = std::panic::catch_unwind(std::panic::AssertUnwindSafe(|| {
        let v_roots = rln.verify_with_roots(Cursor::new(input.clone()), Cursor::new(roots.clone())).map_err(|e| e.to_string());
        let v_raw = rln.verify(Cursor::new(msg.clone())).map_err(|e| e.to_string());
        #[cfg(not(feature = "cfg-stateless"))]
        let v_tree = {
            let idx = req["index"].as_u64().unwrap() as usize;
            let _ = rln.set_tree(20);
            let _ = rln.set_leaf(idx, Cursor::new(unhex(req["leaf_hex"].as_str().unwrap())));
            Some(rln.verify_rln_proof(Cursor::new(input.clone())).map_err(|e| e.to_string()))
        };
        #[cfg(feature = "cfg-stateless")]
        let v_tree: Option<Result<bool, String>> = None;
        // root sets of several sizes: own root first / last / in the middle (acceptable), absent (not acceptable), empty (documented: acceptable)
        let foreign = |k: u8| { let mut b = vec![0u8; 32]; b[0] = k; b[5] = 9; b };
        let mut sets: Vec<(String, Vec<u8>, bool)> = vec![("empty".into(), vec![], true), ("one-foreign".into(), foreign(1), false)];
        for n in [2usize, 4, 9, 33] {
            let all_foreign: Vec<u8> = (0..n).flat_map(|k| foreign(k as u8 + 1)).collect();
            sets.push((format!("{n}-foreign"), all_foreign.clone(), false));
            for (pos, name) in [(0usize, "first"), (n / 2, "middle"), (n - 1, "last")] {
                let mut s = all_foreign.clone();
                s[32 * pos..32 * pos + 32].copy_from_slice(&roots);
                sets.push((format!("{n}-own-{name}"), s, true));
            }
        }
        let mut bad_sets = vec![];
        for (name, set, must) in sets {
            let r = rln.verify_with_roots(Cursor::new(input.clone()), Cursor::new(set)).map_err(|e| e.to_string());
            if r != Ok(must) {
                bad_sets.push(format!("{name}: {:?}", r));
            }
        }
        json!({"verify_with_roots": format!("{:?}", v_roots), "verify": format!("{:?}", v_raw), "verify_rln_proof": v_tree.map(|v| format!("{:?}", v)), "root_sets_wrong": bad_sets})
    }));
    r.unwrap_or(json!({"panic": true}))
}

// ---------------------------------------------------------------- keys
#[cfg(feature = "cfg-arkzkey")]
fn keys() -> Value {
    use rln::circuit::zkey::read_zkey;
    use rln::circuit::{read_arkzkey_from_bytes_uncompressed, ARKZKEY_BYTES, ZKEY_BYTES};
    let a = read_zkey(&mut Cursor::new(ZKEY_BYTES));
    let b = read_arkzkey_from_bytes_uncompressed(ARKZKEY_BYTES);
    match (a, b) {
        (Ok((pk1, m1)), Ok((pk2, m2))) => {
            let mut diffs = vec![];
            if pk1.vk != pk2.vk { diffs.push("verifying key"); }
            if pk1.beta_g1 != pk2.beta_g1 || pk1.delta_g1 != pk2.delta_g1 { diffs.push("beta/delta g1"); }
            if pk1.a_query != pk2.a_query { diffs.push("a_query"); }
            if pk1.b_g1_query != pk2.b_g1_query { diffs.push("b_g1_query"); }
            if pk1.b_g2_query != pk2.b_g2_query { diffs.push("b_g2_query"); }
            if pk1.h_query != pk2.h_query { diffs.push("h_query"); }
            if pk1.l_query != pk2.l_query { diffs.push("l_query"); }
            if m1.num_instance_variables != m2.num_instance_variables || m1.num_witness_variables != m2.num_witness_variables || m1.num_constraints != m2.num_constraints { diffs.push("matrix dimensions"); }
            if m1.a_num_non_zero != m2.a_num_non_zero || m1.b_num_non_zero != m2.b_num_non_zero || m1.c_num_non_zero != m2.c_num_non_zero { diffs.push("non-zero counts"); }
            if m1.a != m2.a { diffs.push("matrix A"); }
            if m1.b != m2.b { diffs.push("matrix B"); }
            if m1.c != m2.c { diffs.push("matrix C"); }
            json!({"loaded": true, "differences": diffs,
                   "sizes": {"a_query": pk1.a_query.len(), "b_g1_query": pk1.b_g1_query.len(), "b_g2_query": pk1.b_g2_query.len(), "h_query": pk1.h_query.len(), "l_query": pk1.l_query.len(),
                             "constraints": m1.num_constraints, "a_rows": m1.a.len(), "b_rows": m1.b.len(), "a_nonzero": m1.a_num_non_zero, "b_nonzero": m1.b_num_non_zero}})
        }
        (a, b) => json!({"loaded": false, "zkey_error": a.err().map(|e| e.to_string()), "arkzkey_error": b.err().map(|e| e.to_string())}),
    }
}
#[cfg(not(feature = "cfg-arkzkey"))]
fn keys() -> Value {
    json!({"not_available_in_this_configuration": true})
}

fn main() {
    let args: Vec<String> = std::env::args().collect();
    std::panic::set_hook(Box::new(|_| {}));
    let read = |p: &str| -> Value { serde_json::from_str(&std::fs::read_to_string(p).expect("read")).expect("json") };
    match args.get(1).map(|s| s.as_str()) {
        Some("emit") => {
            let jobs = read(&args[2]);
            let mut out = json!({"config": cfg_name(), "histories": [], "messages": []});
            #[cfg(not(feature = "cfg-stateless"))]
            {
                let hs: Vec<Value> = jobs["histories"].as_array().unwrap().iter().map(run_history).collect();
                out["histories"] = json!(hs);
            }
            let mut rln = new_rln();
            let ms: Vec<Value> = jobs["requests"].as_array().unwrap().iter().map(|r| produce(&mut rln, r)).collect();
            out["messages"] = json!(ms);
            std::fs::write(&args[3], out.to_string()).expect("write");
        }
        Some("verify") => {
            let jobs = read(&args[2]);
            let produced = read(&args[3]);
            let mut rln = new_rln();
            let res: Vec<Value> = jobs["requests"].as_array().unwrap().iter().zip(produced["messages"].as_array().unwrap().iter()).map(|(r, p)| check_message(&mut rln, r, p)).collect();
            std::fs::write(&args[4], json!({"verifier": cfg_name(), "producer": produced["config"], "results": res}).to_string()).expect("write");
        }
        Some("keys") => {
            std::fs::write(&args[2], keys().to_string()).expect("write");
        }
        _ => {
            eprintln!("usage: zkv-cfg emit <jobs> <out> | verify <jobs> <produced> <out> | keys <out>");
            std::process::exit(2);
        }
    }
}
