import struct
P = 21888242871839275222246405745257275088548364400416034343698204186575808495617
# --- Keccak-256
RC = [0x0000000000000001,0x0000000000008082,0x800000000000808A,0x8000000080008000,0x000000000000808B,0x0000000080000001,0x8000000080008081,0x8000000000008009,0x000000000000008A,0x0000000000000088,0x0000000080008009,0x000000008000000A,0x000000008000808B,0x800000000000008B,0x8000000000008089,0x8000000000008003,0x8000000000008002,0x8000000000000080,0x000000000000800A,0x800000008000000A,0x8000000080008081,0x8000000000008080,0x0000000080000001,0x8000000080008008]
ROT = [[0,36,3,41,18],[1,44,10,45,2],[62,6,43,15,61],[28,55,25,21,56],[27,20,39,8,14]]
M64 = (1<<64)-1
def rol(x,n): return ((x<<n)|(x>>(64-n)))&M64 if n else x
def keccak_f(A):
    for rnd in range(24):
        C=[A[x][0]^A[x][1]^A[x][2]^A[x][3]^A[x][4] for x in range(5)]
        D=[C[(x-1)%5]^rol(C[(x+1)%5],1) for x in range(5)]
        A=[[A[x][y]^D[x] for y in range(5)] for x in range(5)]
        B=[[0]*5 for _ in range(5)]
        for x in range(5):
            for y in range(5):
                B[y][(2*x+3*y)%5]=rol(A[x][y],ROT[x][y])
        A=[[B[x][y]^((~B[(x+1)%5][y])&B[(x+2)%5][y]) for y in range(5)] for x in range(5)]
        A[0][0]^=RC[rnd]
    return A
def keccak256(data):
    rate=136
    p=bytearray(data); p.append(0x01)
    while len(p)%rate: p.append(0)
    p[-1]|=0x80
    A=[[0]*5 for _ in range(5)]
    for off in range(0,len(p),rate):
        blk=p[off:off+rate]
        for i in range(rate//8):
            A[i%5][i//5]^=struct.unpack_from('<Q',blk,8*i)[0]
        A=keccak_f(A)
    out=b''.join(struct.pack('<Q',A[i%5][i//5]) for i in range(4))
    return out
assert keccak256(b'').hex()=='c5d2460186f7233c927e7db2dcc703c0e500b653ca82273b7bfad8045d85a470'
# --- ChaCha20 (rand_chacha: 64-bit counter in words 12,13; stream in 14,15)
def chacha_block(key_words, counter):
    M=0xffffffff
    def rotl(v,n): return ((v<<n)&M)|(v>>(32-n))
    s=[0x61707865,0x3320646e,0x79622d32,0x6b206574]+key_words+[counter&M,(counter>>32)&M,0,0]
    w=s[:]
    def qr(a,b,c,d):
        w[a]=(w[a]+w[b])&M; w[d]=rotl(w[d]^w[a],16)
        w[c]=(w[c]+w[d])&M; w[b]=rotl(w[b]^w[c],12)
        w[a]=(w[a]+w[b])&M; w[d]=rotl(w[d]^w[a],8)
        w[c]=(w[c]+w[d])&M; w[b]=rotl(w[b]^w[c],7)
    for _ in range(10):
        qr(0,4,8,12);qr(1,5,9,13);qr(2,6,10,14);qr(3,7,11,15)
        qr(0,5,10,15);qr(1,6,11,12);qr(2,7,8,13);qr(3,4,9,14)
    return [(w[i]+s[i])&M for i in range(16)]
class ChaCha20Rng:
    def __init__(self, seed):
        self.key=list(struct.unpack('<8I',seed)); self.ctr=0; self.buf=[]
    def next_u32(self):
        if not self.buf:
            self.buf=chacha_block(self.key,self.ctr); self.ctr+=1
        return self.buf.pop(0)
    def next_u64(self):
        lo=self.next_u32(); hi=self.next_u32(); return lo|(hi<<32)
def fr_rand(rng):
    Rinv=pow(1<<256,-1,P)
    while True:
        limbs=[rng.next_u64() for _ in range(4)]
        limbs[3]&=(M64>>2)
        raw=sum(l<<(64*i) for i,l in enumerate(limbs))
        if raw<P: return raw*Rinv%P
rng=ChaCha20Rng(keccak256(bytes(range(10))))
t=fr_rand(rng); n=fr_rand(rng)
print(t); print(n)
print("match secret:", t==3347833025431478267211467390162739787426493818583210540404330502392731559702)
print("match nullifier:", n==14064884594964855789267326643780924581577327920332465404840972402174869852340)
rng=ChaCha20Rng(keccak256(b''))
print("match empty:", fr_rand(rng)==20042088219800399220522358760092043611523693335121848384233315045890422972628)
