const fs = require("fs");
const wc = require("/repo/rln-wasm/resources/witness_calculator.js");
(async () => {
  const code = fs.readFileSync("/repo/rln/resources/tree_height_20/rln.wasm");
  const calc = await wc(code);
  const inputs = {
    identitySecret: "5", userMessageLimit: "100", messageId: "1",
    pathElements: Array(20).fill("7"), identityPathIndex: Array(20).fill("0"),
    x: "9", externalNullifier: "11",
  };
  const t0 = Date.now();
  const w = await calc.calculateWitness(inputs, true);
  console.log("len", w.length, "ms", Date.now() - t0);
  console.log(w.slice(0, 8).map(String));
  // unsatisfiable: messageId == limit
  try { inputs.messageId = "100"; await calc.calculateWitness(inputs, true); console.log("accepted mid=limit"); } catch (e) { console.log("rejected mid=limit:", String(e).slice(0,80)); }
  try { inputs.messageId = "1"; inputs.identityPathIndex[3] = "2"; await calc.calculateWitness(inputs, true); console.log("accepted bit=2"); } catch (e) { console.log("rejected bit=2:", String(e).slice(0,80)); }
})();
